package nodenumaresource

import (
	"testing"

	corev1 "k8s.io/api/core/v1"
	"k8s.io/apimachinery/pkg/api/resource"

	"github.com/koordinator-sh/koordinator/pkg/scheduler/frameworkext/topologymanager"
	"github.com/koordinator-sh/koordinator/pkg/util/bitmask"
)

// F2 (C06): "succeeds for a freely divisible resource whenever the hinted NUMA nodes together have enough of it free
// (whichever node ids the hint names)". The comparator handed to sort.Slice indexes totalAvailable by SLICE POSITION
// instead of by the NUMA node id stored at that position, so the visiting order is wrong whenever the hinted ids are
// not 0..k: hint {1,2}, free {1:10Gi, 2:2Gi}, request 12Gi is reported insufficient although 12Gi are free, while the
// same amounts on nodes {0,1} succeed.
func TestVerifF2DistributeEvenlyOnNonZeroBasedHint(t *testing.T) {
	gi := func(n int64) resource.Quantity { return *resource.NewQuantity(n<<30, resource.BinarySI) }
	run := func(a, b int) []string {
		mask, err := bitmask.NewBitMask(a, b)
		if err != nil {
			t.Fatal(err)
		}
		options := &ResourceOptions{hint: topologymanager.NUMATopologyHint{NUMANodeAffinity: mask}}
		requests := corev1.ResourceList{corev1.ResourceMemory: gi(12)}
		free := map[int]corev1.ResourceList{
			a: {corev1.ResourceMemory: gi(10)},
			b: {corev1.ResourceMemory: gi(2)},
		}
		_, reasons := tryBestToDistributeEvenly(requests, free, options)
		return reasons
	}
	if r := run(0, 1); len(r) != 0 {
		t.Fatalf("setup: hint {0,1} with 10Gi+2Gi free cannot satisfy 12Gi: %v", r)
	}
	if r := run(1, 2); len(r) != 0 {
		t.Errorf("hint {1,2} with 10Gi+2Gi free cannot satisfy 12Gi although 12Gi are free: %v", r)
	}
}
