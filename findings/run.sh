#!/bin/bash
# Runs the demonstration test of a finding against /repo through a go test overlay (nothing is written into /repo).
# usage: findings/run.sh <Fk> ; exit 0 = test passes (defect absent), 1 = test fails (defect present)
set -u
VERIF="$(cd "$(dirname "$0")/.." && pwd)"
REPO="${VERIF_REPO:-/repo}"
F="$1"
export PATH=/root/go/pkg/mod/golang.org/toolchain@v0.0.1-go1.25.0.linux-amd64/bin:$PATH
export GOFLAGS=-mod=mod GOPROXY=off GOSUMDB=off GOTOOLCHAIN=local
export CGO_CFLAGS="-I$VERIF/stubs/pfm/include" CGO_LDFLAGS="-L$VERIF/stubs/pfm"
PKG=$(cat "$VERIF/findings/$F/PKG")
RUN=$(cat "$VERIF/findings/$F/RUN")
OV=$(mktemp "$VERIF/.work/ov.XXXXXX.json" 2>/dev/null || { mkdir -p "$VERIF/.work"; mktemp "$VERIF/.work/ov.XXXXXX.json"; })
{
  echo '{"Replace":{'
  first=1
  for t in "$VERIF/findings/$F"/*_test.go; do
    [ $first = 1 ] || echo ','
    first=0
    echo "\"$REPO/$PKG/$(basename "$t")\": \"$t\""
  done
  echo '}}'
} > "$OV"
(cd "$REPO" && go test -overlay "$OV" -vet=off -count=1 -timeout 300s -run "$RUN" "./$PKG")
rc=$?
rm -f "$OV"
exit $rc
