package validating

import (
	"testing"

	corev1 "k8s.io/api/core/v1"
	"k8s.io/apimachinery/pkg/api/resource"
	metav1 "k8s.io/apimachinery/pkg/apis/meta/v1"

	"github.com/koordinator-sh/koordinator/apis/extension"
)

// F10 (C13): "LSR/LSE pods request a whole number of CPUs". validateResources compares
// cpu.Value()*1000 with cpu.MilliValue(); both round UP, so any request in (k-0.001, k] CPUs passes,
// e.g. 999500u (0.9995 CPU): Value()=1, MilliValue()=1000.
func TestVerifF10FractionalCPUAcceptedForLSR(t *testing.T) {
	for _, q := range []string{"999500u", "1999999999n"} {
		pod := &corev1.Pod{
			ObjectMeta: metav1.ObjectMeta{Labels: map[string]string{extension.LabelPodQoS: string(extension.QoSLSR)}},
			Spec: corev1.PodSpec{Containers: []corev1.Container{{
				Resources: corev1.ResourceRequirements{Requests: corev1.ResourceList{corev1.ResourceCPU: resource.MustParse(q)}},
			}}},
		}
		if errs := validateResources(pod); len(errs) == 0 {
			t.Errorf("LSR pod requesting %s CPU (not a whole number) was accepted", q)
		}
	}
	// whole numbers must still pass
	pod := &corev1.Pod{
		ObjectMeta: metav1.ObjectMeta{Labels: map[string]string{extension.LabelPodQoS: string(extension.QoSLSR)}},
		Spec: corev1.PodSpec{Containers: []corev1.Container{{
			Resources: corev1.ResourceRequirements{Requests: corev1.ResourceList{corev1.ResourceCPU: resource.MustParse("2")}},
		}}},
	}
	if errs := validateResources(pod); len(errs) != 0 {
		t.Errorf("LSR pod requesting 2 CPU was rejected: %v", errs)
	}
}
