package elasticquota

import (
	"testing"

	"github.com/koordinator-sh/koordinator/apis/extension"
)

// F15 (C15): the recorded children of a parent must list every admitted child. koord-scheduler creates the
// koordinator-root-quota object through the API (createRootQuotaIfNotPresent); ValidAddQuota accepts it and
// unconditionally resets quotaHierarchyInfo[name], wiping the children already registered under the root
// (after which, e.g., a parent with children no longer looks like one).
func TestVerifF15AddingRootObjectKeepsRootChildren(t *testing.T) {
	qt := newFakeQuotaTopology()
	res := MakeResourceList().CPU(100).Mem(1000).Obj()
	child := MakeQuota("team-a").ParentName(extension.RootQuotaName).Max(res).IsParent(false).Obj()
	qt.fillQuotaDefaultInformation(child)
	if err := qt.ValidAddQuota(child); err != nil {
		t.Fatal(err)
	}
	if _, ok := qt.quotaHierarchyInfo[extension.RootQuotaName]["team-a"]; !ok {
		t.Fatal("setup: team-a not registered under root")
	}
	root := MakeQuota(extension.RootQuotaName).Obj()
	root.Labels[extension.LabelQuotaIsParent] = "true"
	if err := qt.ValidAddQuota(root); err != nil {
		t.Skipf("root object rejected: %v", err)
	}
	if _, ok := qt.quotaHierarchyInfo[extension.RootQuotaName]["team-a"]; !ok {
		t.Errorf("creating the %s object wiped the root's recorded children: %v", extension.RootQuotaName, qt.quotaHierarchyInfo[extension.RootQuotaName])
	}
}
