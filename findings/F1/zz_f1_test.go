package core

import (
	"testing"

	v1 "k8s.io/api/core/v1"

	"github.com/koordinator-sh/koordinator/apis/extension"
)

// F1 (C01): a child whose request exceeds its max contributes only min(request, max) to its parent's
// ChildRequest/Request, but deleting (or re-parenting) the child subtracts the unlimited request, so
// the old parent loses more than it had gained and a sibling's request vanishes from the parent.
func TestVerifF1DeleteChildWithRequestAboveMax(t *testing.T) {
	gqm := NewGroupQuotaManagerForTest()
	gqm.UpdateClusterTotalResource(createResourceList(1000, 1000*GigaByte))

	AddQuotaToManager(t, gqm, "p", extension.RootQuotaName, 100, 100*GigaByte, 0, 0, true, true)
	child := AddQuotaToManager(t, gqm, "c-limited", "p", 10, 10*GigaByte, 0, 0, true, false)
	AddQuotaToManager(t, gqm, "c-sibling", "p", 100, 100*GigaByte, 0, 0, true, false)

	// child requests 30 (max 10): the parent gains 10; sibling requests 5: the parent gains 5.
	gqm.updateGroupDeltaRequestNoLock("c-limited", createResourceList(30, 30*GigaByte), v1.ResourceList{}, 0)
	gqm.updateGroupDeltaRequestNoLock("c-sibling", createResourceList(5, 5*GigaByte), v1.ResourceList{}, 0)
	parent := gqm.GetQuotaInfoByName("p")
	if got := parent.CalculateInfo.Request.Cpu().Value(); got != 15 {
		t.Fatalf("setup: parent request cpu = %d, want 15", got)
	}

	// delete the limited child: the parent must keep exactly the sibling's 5.
	gqm.hierarchyUpdateLock.Lock()
	err := gqm.deleteQuotaNoLock(child)
	gqm.hierarchyUpdateLock.Unlock()
	if err != nil {
		t.Fatal(err)
	}
	if got := parent.CalculateInfo.Request.Cpu().Value(); got != 5 {
		t.Fatalf("after deleting the limited child the parent's request cpu = %d, want 5 (sibling's request)", got)
	}
	if got := parent.CalculateInfo.ChildRequest.Cpu().Value(); got != 5 {
		t.Fatalf("after deleting the limited child the parent's child-request cpu = %d, want 5", got)
	}
}
