package nodenumaresource

import (
	"encoding/json"
	"testing"

	nrtv1alpha1 "github.com/k8stopologyawareschedwg/noderesourcetopology-api/pkg/apis/topology/v1alpha1"
	corev1 "k8s.io/api/core/v1"
	metav1 "k8s.io/apimachinery/pkg/apis/meta/v1"
	"k8s.io/apimachinery/pkg/util/uuid"

	"github.com/koordinator-sh/koordinator/apis/extension"
	"github.com/koordinator-sh/koordinator/pkg/util/cpuset"
)

// F18 (C19, obligation C19/nodenumaresource.(*resourceManager).Update/ensures#never_dropped):
// resourceManager.Update returns silently when the node has no valid CPU topology at that moment
// (resource_manager.go: `if !topologyOptions.CPUTopology.IsValid() { return }`). The pod event handler replays the CPU set
// persisted on a bound pod (resource-status annotation) through exactly this call, and nothing replays it again when the
// node's NodeResourceTopology arrives later (the topology event handler only stores the topology). So after a scheduler
// restart during which the node's NodeResourceTopology is missing / reports no CPUs, the CPUs the pod holds are considered
// free for ever: the rebuilt per-node state differs from the state of the scheduler that made the allocation.
func f18NRT(t *testing.T, nodeName string, topo *CPUTopology) *nrtv1alpha1.NodeResourceTopology {
	external := &extension.CPUTopology{}
	for _, v := range topo.CPUDetails {
		external.Detail = append(external.Detail, extension.CPUInfo{
			ID:     int32(v.CPUID),
			Core:   int32(v.CoreID & 0xffff),
			Socket: int32(v.SocketID),
			Node:   int32(v.NodeID & 0xffff),
		})
	}
	data, err := json.Marshal(external)
	if err != nil {
		t.Fatalf("setup: marshal cpu topology: %v", err)
	}
	return &nrtv1alpha1.NodeResourceTopology{
		ObjectMeta: metav1.ObjectMeta{
			Name:        nodeName,
			Annotations: map[string]string{extension.AnnotationNodeCPUTopology: string(data)},
		},
	}
}

func f18BoundPod(nodeName string) *corev1.Pod {
	return &corev1.Pod{
		ObjectMeta: metav1.ObjectMeta{
			UID:       uuid.NewUUID(),
			Namespace: "default",
			Name:      "lsr-pod",
			Labels:    map[string]string{extension.LabelPodQoS: string(extension.QoSLSR)},
			Annotations: map[string]string{
				extension.AnnotationResourceSpec:   `{"preferredCPUBindPolicy": "FullPCPUs"}`,
				extension.AnnotationResourceStatus: `{"cpuset": "0-3"}`, // what PreBind persisted before the restart
			},
		},
		Spec:   corev1.PodSpec{NodeName: nodeName},
		Status: corev1.PodStatus{Phase: corev1.PodRunning},
	}
}

// the state a freshly started scheduler has: empty topology manager, empty ledgers, the real event handlers
func f18FreshScheduler() (*resourceManager, *podEventHandler, *nodeResourceTopologyEventHandler) {
	tom := NewTopologyOptionsManager()
	rm := &resourceManager{topologyOptionsManager: tom, nodeAllocations: map[string]*NodeAllocation{}}
	return rm, &podEventHandler{resourceManager: rm}, &nodeResourceTopologyEventHandler{topologyManager: tom}
}

func TestVerifF18AllocationDroppedWhenTopologyArrivesAfterPod(t *testing.T) {
	const nodeName = "test-node-1"
	taken := cpuset.MustParse("0-3")
	nrt := f18NRT(t, nodeName, buildCPUTopologyForTest(2, 1, 4, 2)) // 16 CPUs

	// control: topology first, then the pod's add event -> CPUs 0-3 are taken (this is the state before the restart)
	{
		rm, pods, topo := f18FreshScheduler()
		topo.OnAdd(nrt, true)
		pod := f18BoundPod(nodeName)
		pods.OnAdd(pod, true)
		avail, _, err := rm.GetAvailableCPUs(nodeName)
		if err != nil {
			t.Fatalf("control: GetAvailableCPUs: %v", err)
		}
		if got, ok := rm.GetAllocatedCPUSet(nodeName, pod.UID); !ok || !got.Equals(taken) || !avail.Intersection(taken).IsEmpty() {
			t.Fatalf("control (topology known before the pod event): allocated=%v found=%v available=%v, want CPUs 0-3 taken", got, ok, avail)
		}
		t.Logf("control: topology before pod event: pod holds %v, available %v", taken, avail)
	}

	// restart: the node's NodeResourceTopology is not (yet) known when the bound pod's add event is replayed ...
	rm, pods, topo := f18FreshScheduler()
	pod := f18BoundPod(nodeName)
	pods.OnAdd(pod, true)
	// ... a duplicate add and an update event carrying the same allocation do not help either ...
	pods.OnAdd(pod, true)
	pods.OnUpdate(pod, pod)
	// ... and then the topology arrives the way the NRT informer handler delivers it
	topo.OnAdd(nrt, false)
	if !rm.topologyOptionsManager.GetTopologyOptions(nodeName).CPUTopology.IsValid() {
		t.Fatalf("setup: topology not valid after the NodeResourceTopology add event")
	}

	got, ok := rm.GetAllocatedCPUSet(nodeName, pod.UID)
	if !ok || !got.Equals(taken) {
		t.Errorf("F18: after restart the ledger has no allocation for bound pod %s/%s (found=%v cpus=%q), want %q as persisted in its resource-status annotation: "+
			"resourceManager.Update dropped it because the node had no valid CPU topology when the pod event was replayed, and nothing replays it when the topology arrives",
			pod.Namespace, pod.Name, ok, got.String(), taken.String())
	}
	avail, _, err := rm.GetAvailableCPUs(nodeName)
	if err != nil {
		t.Fatalf("GetAvailableCPUs: %v", err)
	}
	if free := avail.Intersection(taken); !free.IsEmpty() {
		t.Errorf("F18: CPUs %q are held by bound pod %s/%s (persisted cpuset %q) but GetAvailableCPUs offers them to the allocator as free (available=%q): "+
			"a CPU taken before the restart is considered free after it",
			free.String(), pod.Namespace, pod.Name, taken.String(), avail.String())
	}
}
