package nodeslo

import (
	"testing"

	corev1 "k8s.io/api/core/v1"
	metav1 "k8s.io/apimachinery/pkg/apis/meta/v1"

	"github.com/koordinator-sh/koordinator/apis/configuration"
)

// F12 (C20): "the value from the first matching node entry if that entry sets the field, otherwise the cluster-wide
// value". SystemStrategy.TotalNetworkBandwidth is a non-pointer resource.Quantity; `omitempty` never omits a struct,
// so MergeCfg always writes the patch's (zero) value: a node entry that does not mention totalNetworkBandwidth wipes
// the cluster-wide setting for the nodes it selects.
func TestVerifF12NodeEntryKeepsClusterBandwidth(t *testing.T) {
	cm := &corev1.ConfigMap{Data: map[string]string{
		configuration.SystemConfigKey: `{"clusterStrategy":{"totalNetworkBandwidth":"10G","minFreeKbytesFactor":100},
 "nodeStrategies":[{"name":"n","nodeSelector":{"matchLabels":{"pool":"a"}},"watermarkScaleFactor":150}]}`,
	}}
	merged, err := calculateSystemConfigMerged(DefaultSLOCfg().SystemCfgMerged, cm)
	if err != nil {
		t.Fatal(err)
	}
	node := &corev1.Node{ObjectMeta: metav1.ObjectMeta{Name: "x", Labels: map[string]string{"pool": "a"}}}
	got, err := getSystemConfigSpec(node, &merged)
	if err != nil {
		t.Fatal(err)
	}
	if *got.MinFreeKbytesFactor != 100 || *got.WatermarkScaleFactor != 150 {
		t.Fatalf("setup: unexpected merged values %v %v", *got.MinFreeKbytesFactor, *got.WatermarkScaleFactor)
	}
	if got.TotalNetworkBandwidth.Cmp(merged.ClusterStrategy.TotalNetworkBandwidth) != 0 || got.TotalNetworkBandwidth.IsZero() {
		t.Errorf("node entry does not set totalNetworkBandwidth and the cluster sets %s, but the node gets %s",
			merged.ClusterStrategy.TotalNetworkBandwidth.String(), got.TotalNetworkBandwidth.String())
	}
	// a node entry that does set it must still win
	cm.Data[configuration.SystemConfigKey] = `{"clusterStrategy":{"totalNetworkBandwidth":"10G"},
 "nodeStrategies":[{"name":"n","nodeSelector":{"matchLabels":{"pool":"a"}},"totalNetworkBandwidth":"25G"}]}`
	merged, err = calculateSystemConfigMerged(DefaultSLOCfg().SystemCfgMerged, cm)
	if err != nil {
		t.Fatal(err)
	}
	got, _ = getSystemConfigSpec(node, &merged)
	if got.TotalNetworkBandwidth.String() != "25G" {
		t.Errorf("node entry sets 25G but the node gets %s", got.TotalNetworkBandwidth.String())
	}
}
