package core

import (
	"testing"

	v1 "k8s.io/api/core/v1"
	schetesting "k8s.io/kubernetes/pkg/scheduler/testing"

	"github.com/koordinator-sh/koordinator/apis/extension"
)

// F9 (C01): OnPodUpdate adjusts the sums when a pod's request changes in place but never refreshes the
// object held in PodCache. Plugin.migratePods / migrateDefaultQuotaGroupsPod later hand the cached (stale)
// object to MigratePod, which then releases the old amount from the source and adds the old amount to the
// target: the source keeps a phantom remainder and the target under-counts.
func TestVerifF9StalePodCacheAfterUpdate(t *testing.T) {
	gqm := NewGroupQuotaManagerForTest()
	gqm.UpdateClusterTotalResource(createResourceList(1000, 1000*GigaByte))
	AddQuotaToManager(t, gqm, "a", extension.RootQuotaName, 100, 100*GigaByte, 0, 0, true, false)
	AddQuotaToManager(t, gqm, "b", extension.RootQuotaName, 100, 100*GigaByte, 0, 0, true, false)

	oldPod := schetesting.MakePod().Namespace("ns").Name("p").Node("n1").Obj()
	oldPod.Spec.Containers = []v1.Container{{Resources: v1.ResourceRequirements{Requests: createResourceList(5, 5*GigaByte)}}}
	gqm.OnPodAdd("a", oldPod)

	newPod := oldPod.DeepCopy()
	newPod.Spec.Containers[0].Resources.Requests = createResourceList(8, 8*GigaByte)
	gqm.OnPodUpdate("a", "a", newPod, oldPod)

	a := gqm.GetQuotaInfoByName("a")
	if got := a.CalculateInfo.Request.Cpu().Value(); got != 8 {
		t.Fatalf("setup: a.request cpu = %d, want 8", got)
	}
	cached := a.GetPodCache()["ns/p"]
	if cached != newPod {
		t.Errorf("PodCache of quota a still holds the pre-update object (request %v), want the updated pod",
			cached.Spec.Containers[0].Resources.Requests.Cpu())
	}

	// what Plugin.migratePods does: migrate the cached object
	gqm.MigratePod(cached, "a", "b")
	b := gqm.GetQuotaInfoByName("b")
	if ra, ua := a.CalculateInfo.Request.Cpu().Value(), a.CalculateInfo.Used.Cpu().Value(); ra != 0 || ua != 0 {
		t.Errorf("after migration quota a has request=%d used=%d, want 0/0", ra, ua)
	}
	if rb, ub := b.CalculateInfo.Request.Cpu().Value(), b.CalculateInfo.Used.Cpu().Value(); rb != 8 || ub != 8 {
		t.Errorf("after migration quota b has request=%d used=%d, want 8/8", rb, ub)
	}
}
