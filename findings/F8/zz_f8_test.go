package util

import (
	"testing"

	corev1 "k8s.io/api/core/v1"
	"k8s.io/apimachinery/pkg/api/resource"
	metav1 "k8s.io/apimachinery/pkg/apis/meta/v1"
)

type recExec struct{ evicted []string }

func (r *recExec) Evict(pod *corev1.Pod, node *corev1.Node, a, b string) bool {
	r.evicted = append(r.evicted, pod.Name)
	return true
}
func (r *recExec) IsPodEvicted(*corev1.Pod) bool { return false }

func TestVerifF8(t *testing.T) {
	mk := func(name string, used int64) *PodEvictInfo {
		return &PodEvictInfo{Pod: &corev1.Pod{ObjectMeta: metav1.ObjectMeta{Namespace: "ns", Name: name}}, MemoryUsed: used}
	}
	task := &EvictTaskInfo{
		Reason:            "mem",
		SortedEvictPods:   []*PodEvictInfo{mk("idle", 0), mk("hog", 500)},
		ReleaseTarget:     ReleaseTargetTypeResourceUsed,
		ToReleaseResource: corev1.ResourceList{corev1.ResourceMemory: *resource.NewQuantity(100, resource.BinarySI)},
		GetPodResourceFunc: func(i *PodEvictInfo) corev1.ResourceList {
			return corev1.ResourceList{corev1.ResourceMemory: *resource.NewQuantity(i.MemoryUsed, resource.BinarySI)}
		},
	}
	ex := &recExec{}
	rel, newly := KillAndEvictPods(ex, &corev1.Node{}, []*EvictTaskInfo{task})
	t.Logf("evicted=%v released=%v newly=%v", ex.evicted, rel, newly)
	if len(ex.evicted) > 0 && ex.evicted[0] == "idle" {
		t.Errorf("pod idle (memory used 0) was evicted although it frees nothing of the 100B still short")
	}
}
