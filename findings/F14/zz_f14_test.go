package core

import (
	"fmt"
	"math"
	"testing"

	corev1 "k8s.io/api/core/v1"
	"k8s.io/apimachinery/pkg/api/resource"
	metav1 "k8s.io/apimachinery/pkg/apis/meta/v1"

	"github.com/koordinator-sh/koordinator/apis/thirdparty/scheduler-plugins/pkg/apis/scheduling/v1alpha1"
)

// F14 (C02): "the siblings together never get more than the parent has whenever their minimums fit, and capacity left
// after the minimums is handed to still-unsatisfied siblings ... until every request is met or nothing is left".
// (*quotaTree).redistribution adds the siblings' shared weights in an int64 (runtime_quota_calculator.go:133,
// `totalSharedWeight += node.sharedWeight`). The shared weight defaults to spec.max, and koordinator's own "unlimited"
// cpu max (pkg/quota-controller/profile: MaxInt64/2000 cores) is 4611686018427387000 in the milli unit used for cpu, so
// three such siblings already overflow the sum:
//   - 3 or 4 siblings: the sum wraps to a negative number, iterationForRedistribution returns at once and every sibling
//     stays at its min although most of the parent's capacity is idle (not work-conserving);
//   - 5 siblings: the sum wraps to 4611686018427383384, slightly less than each single weight, so every sibling
//     receives the WHOLE surplus: runtime quotas add up to 500 cores of a 200-core parent.

const f14UnlimitedCPU = math.MaxInt64 / 2000 // cores, the constant used by the quota profile controller

func f14CPU(cores int64) corev1.ResourceList {
	return corev1.ResourceList{corev1.ResourceCPU: *resource.NewQuantity(cores, resource.DecimalSI)}
}

// f14Runtime builds n sibling quotas (min 10 cores, max "unlimited", default shared weight, request 100 cores, lending
// allowed) under a parent with totalCores and returns every sibling's runtime quota in milli-cores.
func f14Runtime(t *testing.T, n int, totalCores int64) []int64 {
	calc := NewRuntimeQuotaCalculator("parent")
	calc.setClusterTotalResource(f14CPU(totalCores))
	var infos []*QuotaInfo
	for i := 0; i < n; i++ {
		eq := &v1alpha1.ElasticQuota{
			ObjectMeta: metav1.ObjectMeta{Name: fmt.Sprintf("q%d", i)},
			Spec:       v1alpha1.ElasticQuotaSpec{Min: f14CPU(10), Max: f14CPU(f14UnlimitedCPU)},
		}
		qi := NewQuotaInfoFromQuota(eq) // shared weight defaults to max, lending allowed by default
		qi.setAutoScaleMinQuotaNoLock(eq.Spec.Min)
		qi.CalculateInfo.Request = f14CPU(100)
		if !qi.AllowLentResource {
			t.Fatalf("test setup: lending should be allowed by default")
		}
		calc.updateOneGroupMaxQuota(qi) // inserts the sibling (weight, limited request, min) in every dimension
		infos = append(infos, qi)
	}
	var out []int64
	for _, qi := range infos {
		calc.updateOneGroupRuntimeQuota(qi)
		rt := qi.CalculateInfo.Runtime[corev1.ResourceCPU]
		out = append(out, rt.MilliValue())
	}
	return out
}

func f14Check(t *testing.T, n int) {
	const total, min, request = int64(200), int64(10), int64(100)
	rts := f14Runtime(t, n, total)
	sum := int64(0)
	for i, rt := range rts {
		sum += rt
		if rt < min*1000 || rt > request*1000 {
			t.Errorf("%d siblings: q%d runtime %dm outside [min %dm, request %dm]", n, i, rt, min*1000, request*1000)
		}
	}
	// the minimums fit (n*10 <= 200): the siblings together must not get more than the parent has
	if sum > total*1000 {
		t.Errorf("%d siblings: runtime quotas add up to %dm, the parent only has %dm (runtimes %v)", n, sum, total*1000, rts)
	}
	// work conservation: either everything is handed out or every request is met
	want := total * 1000
	if int64(n)*request*1000 < want {
		want = int64(n) * request * 1000
	}
	if sum < want {
		t.Errorf("%d siblings: only %dm of %dm handed out although requests are unmet (runtimes %v)", n, sum, want, rts)
	}
}

func TestVerifF14SharedWeightSumOverflow(t *testing.T) {
	f14Check(t, 2) // no overflow yet: 100 + 100
	f14Check(t, 3) // sum of weights negative: everyone stuck at min
	f14Check(t, 4) // sum of weights negative: everyone stuck at min
	f14Check(t, 5) // sum of weights wraps to a small positive number: 5 x 100 cores out of 200
	f14Check(t, 6)
}

// The same on the quotaTree level, with the exact integers.
func TestVerifF14QuotaTree(t *testing.T) {
	const w = int64(4611686018427387000) // MilliValue of MaxInt64/2000 cores
	for _, n := range []int{3, 5} {
		qt := NewQuotaTree()
		for i := 0; i < n; i++ {
			qt.insert(fmt.Sprintf("q%d", i), w, 100000, 10000, 0, true)
		}
		qt.redistribution(200000)
		sum := int64(0)
		for _, node := range qt.quotaNodes {
			sum += node.runtimeQuota
		}
		if sum != 200000 {
			t.Errorf("%d siblings: sum of runtimeQuota = %d, want 200000 (all requests are 100000, parent has 200000)", n, sum)
		}
	}
}
