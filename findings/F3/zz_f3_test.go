package batchresource

import (
	"testing"
	"time"

	corev1 "k8s.io/api/core/v1"
	metav1 "k8s.io/apimachinery/pkg/apis/meta/v1"

	"github.com/koordinator-sh/koordinator/apis/configuration"
	"github.com/koordinator-sh/koordinator/apis/extension"
	slov1alpha1 "github.com/koordinator-sh/koordinator/apis/slo/v1alpha1"
	"github.com/koordinator-sh/koordinator/pkg/slo-controller/noderesource/framework"
	"github.com/koordinator-sh/koordinator/pkg/util/sloconfig"
)

// F3 (C09): "pods that have not reported metrics yet are charged at their request". Under the maxUsageRequest CPU
// policy a high-priority pod without a metric is charged in podsHPUsed and podsHPRequest but NOT in
// podsHPMaxUsedReq, so the published batch CPU ignores it entirely until its first metric arrives:
// the amount published WITHOUT a metric must not exceed the amount published when the pod reports a small usage.
func TestVerifF3PodWithoutMetricChargedAtRequest(t *testing.T) {
	policy := configuration.CalculateByPodMaxUsageRequest
	strategy := sloconfig.DefaultColocationStrategy()
	strategy.Enable = func() *bool { b := true; return &b }()
	strategy.CPUCalculatePolicy = &policy
	node := &corev1.Node{ObjectMeta: metav1.ObjectMeta{Name: "n"}, Status: makeNodeStat("100", "100G")}
	pods := &corev1.PodList{Items: []corev1.Pod{{
		ObjectMeta: metav1.ObjectMeta{Name: "prod", Namespace: "test", Labels: map[string]string{extension.LabelPodQoS: string(extension.QoSLS)}},
		Spec:       corev1.PodSpec{NodeName: "n", Containers: []corev1.Container{{Resources: makeResourceReq("40", "10G")}}},
		Status:     corev1.PodStatus{Phase: corev1.PodRunning},
	}}}
	metrics := func(withPodMetric bool) *framework.ResourceMetrics {
		m := &framework.ResourceMetrics{NodeMetric: &slov1alpha1.NodeMetric{Status: slov1alpha1.NodeMetricStatus{
			UpdateTime: &metav1.Time{Time: time.Now()},
			NodeMetric: &slov1alpha1.NodeMetricInfo{
				NodeUsage:   slov1alpha1.ResourceMap{ResourceList: makeResourceList("2", "2G")},
				SystemUsage: slov1alpha1.ResourceMap{ResourceList: makeResourceList("1", "1G")},
			},
		}}}
		if withPodMetric {
			m.NodeMetric.Status.PodsMetric = []*slov1alpha1.PodMetricInfo{genPodMetric("test", "prod", "1", "1G")}
		}
		return m
	}
	p := &Plugin{}
	without, _, _ := p.calculateOnNode(&strategy, node, pods, metrics(false))
	with, _, _ := p.calculateOnNode(&strategy, node, pods, metrics(true))
	cpuWithout, cpuWith := without[corev1.ResourceCPU], with[corev1.ResourceCPU]
	t.Logf("without=%s with=%s", cpuWithout.String(), cpuWith.String())
	// with a metric the pod is charged max(request 40, usage 1) = 40; without one it must be charged its request, 40 too
	if cpuWithout.Cmp(cpuWith) > 0 {
		t.Errorf("batch cpu published while the prod pod (request 40) has no metric = %s, more than %s published once it reports 1 cpu of usage: the pod is not charged at its request",
			cpuWithout.String(), cpuWith.String())
	}
}
