package memoryevict

import (
	"testing"

	"go.uber.org/mock/gomock"
	corev1 "k8s.io/api/core/v1"
	metav1 "k8s.io/apimachinery/pkg/apis/meta/v1"
	"k8s.io/apimachinery/pkg/types"
	"k8s.io/utils/ptr"

	apiext "github.com/koordinator-sh/koordinator/apis/extension"
	"github.com/koordinator-sh/koordinator/pkg/features"
	"github.com/koordinator-sh/koordinator/pkg/koordlet/metriccache"
	mock_metriccache "github.com/koordinator-sh/koordinator/pkg/koordlet/metriccache/mockmetriccache"
	maframework "github.com/koordinator-sh/koordinator/pkg/koordlet/metricsadvisor/framework"
	"github.com/koordinator-sh/koordinator/pkg/koordlet/qosmanager/framework"
	mock_statesinformer "github.com/koordinator-sh/koordinator/pkg/koordlet/statesinformer/mockstatesinformer"
	"github.com/koordinator-sh/koordinator/pkg/koordlet/util/testutil"
)

// F19 (C11): the victim list of the BE memory strategy (BEMemoryEvict; the BE CPU strategy had the same shape) ignored
// the annotation koordinator.sh/eviction-priority, although the property ("victims are taken in the published order:
// eviction priority, then priority, then usage/request") and the annotation's documentation ("In the koordlet resource
// eviction ... pods with lower values are evicted before pods with higher values, taking precedence over spec.priority")
// put it first. BE pod A (eviction-priority "-1", spec.priority 5999) must be listed before BE pod B (no annotation,
// spec.priority 5000); the unrepaired comparator started with spec.priority and listed B first.
func TestVerifF19BEListHonoursEvictionPriority(t *testing.T) {
	mkPod := func(name string, prio int32, evictionPriority string) *corev1.Pod {
		p := &corev1.Pod{
			ObjectMeta: metav1.ObjectMeta{
				Namespace: "ns", Name: name, UID: types.UID("uid-" + name),
				Labels: map[string]string{apiext.LabelPodQoS: string(apiext.QoSBE)},
			},
			Spec:   corev1.PodSpec{Priority: ptr.To[int32](prio)},
			Status: corev1.PodStatus{Phase: corev1.PodRunning},
		}
		if evictionPriority != "" {
			p.Annotations = map[string]string{apiext.AnnotationPodEvictionPriority: evictionPriority}
		}
		return p
	}
	podA := mkPod("pod-a", 5999, "-1")
	podB := mkPod("pod-b", 5000, "")
	pods := []*corev1.Pod{podB, podA} // B first in the informer, so a stable "do nothing" sort cannot pass by accident
	memUsed := map[string]float64{"uid-pod-a": 100 << 20, "uid-pod-b": 500 << 20}

	ctl := gomock.NewController(t)
	defer ctl.Finish()
	mockStatesInformer := mock_statesinformer.NewMockStatesInformer(ctl)
	mockStatesInformer.EXPECT().GetAllPods().Return(testutil.GetPodMetas(pods)).AnyTimes()

	mockMetricCache := mock_metriccache.NewMockMetricCache(ctl)
	mockResultFactory := mock_metriccache.NewMockAggregateResultFactory(ctl)
	oldFactory := metriccache.DefaultAggregateResultFactory
	metriccache.DefaultAggregateResultFactory = mockResultFactory
	defer func() { metriccache.DefaultAggregateResultFactory = oldFactory }()
	mockQuerier := mock_metriccache.NewMockQuerier(ctl)
	mockMetricCache.EXPECT().Querier(gomock.Any(), gomock.Any()).Return(mockQuerier, nil).AnyTimes()
	for uid, used := range memUsed {
		result := mock_metriccache.NewMockAggregateResult(ctl)
		result.EXPECT().Value(gomock.Any()).Return(used, nil).AnyTimes()
		result.EXPECT().Count().Return(1).AnyTimes()
		podQueryMeta, err := metriccache.PodMemUsageMetric.BuildQueryMeta(metriccache.MetricPropertiesFunc.Pod(uid))
		if err != nil {
			t.Fatalf("setup: query meta: %v", err)
		}
		mockResultFactory.EXPECT().New(podQueryMeta).Return(result).AnyTimes()
		mockQuerier.EXPECT().QueryAndClose(podQueryMeta, gomock.Any(), gomock.Any()).SetArg(2, *result).Return(nil).AnyTimes()
	}

	m := New(&framework.Options{
		StatesInformer:      mockStatesInformer,
		MetricCache:         mockMetricCache,
		Config:              framework.NewDefaultConfig(),
		MetricAdvisorConfig: maframework.NewDefaultConfig(),
	}).(*memoryEvictor)

	infos := m.getSortedBEPodInfos(string(features.BEMemoryEvict), nil, m.statesInformer.GetAllPods())
	if len(infos) != 2 {
		t.Fatalf("setup: got %d BE victims, want 2", len(infos))
	}
	for _, in := range infos {
		if in.MemoryUsed == 0 {
			t.Fatalf("setup: pod %s has no memory usage from the mocked metric cache", in.Pod.Name)
		}
		t.Logf("victim %s: evictionPriority=%d spec.priority=%d memoryUsed=%d", in.Pod.Name, in.EvictionPriority, *in.Pod.Spec.Priority, in.MemoryUsed)
	}
	if infos[0].Pod.Name != "pod-a" || infos[1].Pod.Name != "pod-b" {
		t.Errorf("BE victim order = [%s %s], want [pod-a pod-b]: pod-a carries koordinator.sh/eviction-priority=-1 and must be evicted before pod-b (implicit 0) regardless of spec.priority",
			infos[0].Pod.Name, infos[1].Pod.Name)
	}
}
