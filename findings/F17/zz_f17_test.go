package reservation

import (
	"testing"

	corev1 "k8s.io/api/core/v1"
	"k8s.io/apimachinery/pkg/api/resource"
	"k8s.io/apimachinery/pkg/types"

	"github.com/koordinator-sh/koordinator/pkg/scheduler/frameworkext"
)

// F17 (C05): "a pod is let in only if [allocated] plus the pod's request stays within what the reservation reserved". The amount
// already claimed by nominated pods reaches fitsReservation as a negative preemptible amount, but it is only taken into
// account when the Allocated ledger HAS an entry for the resource: before the first assignment creates the entry the
// nominated pod's 3 cpu are ignored and a 2-cpu pod fits a 4-cpu reservation that is already claimed for 3.
func TestVerifF17NominatedUsageCountsWithoutLedgerEntry(t *testing.T) {
	mk := func(allocated corev1.ResourceList) *frameworkext.ReservationInfo {
		return &frameworkext.ReservationInfo{
			ResourceNames: []corev1.ResourceName{corev1.ResourceCPU},
			Allocatable:   corev1.ResourceList{corev1.ResourceCPU: resource.MustParse("4")},
			Allocated:     allocated,
			AssignedPods:  map[types.UID]*frameworkext.PodRequirement{},
		}
	}
	req := corev1.ResourceList{corev1.ResourceCPU: resource.MustParse("2")}
	pre := corev1.ResourceList{corev1.ResourceCPU: resource.MustParse("-3")} // nominated pod of 3 cpu added back by AddPod
	a := fitsReservation(req, mk(nil), pre, false, nil, nil)
	b := fitsReservation(req, mk(corev1.ResourceList{corev1.ResourceCPU: resource.MustParse("0")}), pre, false, nil, nil)
	t.Logf("ledger nil      -> %v", a)
	t.Logf("ledger {cpu: 0} -> %v", b)
	if len(a) != len(b) {
		t.Fatalf("same amounts, different verdicts: nil ledger %v vs zero-entry ledger %v", a, b)
	}
}
