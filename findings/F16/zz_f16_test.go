package elasticquota

import (
	"context"
	"testing"

	corev1 "k8s.io/api/core/v1"
	metav1 "k8s.io/apimachinery/pkg/apis/meta/v1"
	"k8s.io/kubernetes/pkg/scheduler/framework"

	"github.com/koordinator-sh/koordinator/apis/extension"
	"github.com/koordinator-sh/koordinator/pkg/scheduler/apis/config"
)

// F16 (C03): the default (and system) quota group has no node in the runtime-quota calculator tree, so its
// CalculateInfo.Runtime stays {} for ever. With EnableRuntimeQuota=true (the default) PreFilter compares
// used+request with that empty list; quotav1.LessThanOrEqual only inspects keys present on both sides, so the
// comparison is vacuously true and the group's max is never enforced: used passes max although max is not lowered.
// (RefreshRuntime returns the max for these two groups, but PreFilter discards its result and reads GetRuntime().)
func TestVerifF16DefaultQuotaMaxNotEnforcedWithRuntimeQuota(t *testing.T) {
	suit := newPluginTestSuit(t, nil, func(a *config.ElasticQuotaArgs) {
		a.EnableRuntimeQuota = true
		a.DefaultQuotaGroupMax = MakeResourceList().CPU(10).Mem(20).Obj()
	})
	gp := suit.createPlugin(t).(*Plugin)

	// the default quota object as the administrator configured it: max {cpu:10, memory:20}
	eq, err := suit.client.SchedulingV1alpha1().ElasticQuotas(gp.pluginArgs.QuotaGroupNamespace).Get(context.TODO(), extension.DefaultQuotaName, metav1.GetOptions{})
	if err != nil {
		t.Fatalf("setup: default quota object: %v", err)
	}
	neq := eq.DeepCopy()
	neq.Spec.Max = MakeResourceList().CPU(10).Mem(20).Obj()
	gp.OnQuotaUpdate(eq, neq)

	qi := gp.groupQuotaManager.GetQuotaInfoByName(extension.DefaultQuotaName)
	if qi == nil {
		t.Fatalf("setup: no default quota")
	}
	max := qi.GetMax()
	if max.Cpu().Value() != 10 || max.Memory().Value() != 20 {
		t.Fatalf("setup: default quota max = %v, want cpu:10,memory:20", printResourceList(max))
	}

	// a pod without quota label in a namespace without quota: associated with the default quota
	pod := MakePod("some-ns", "pod1").Container(MakeResourceList().CPU(100).Mem(200).Obj()).Obj()
	if name := gp.GetQuotaName(pod); name != extension.DefaultQuotaName {
		t.Fatalf("setup: pod associated with %q, want the default quota", name)
	}
	gp.OnPodAdd(pod)

	_, status := gp.PreFilter(context.TODO(), framework.NewCycleState(), pod, nil)
	t.Logf("PreFilter: code=%v msg=%q; limit(runtime)=%v max=%v used=%v", status.Code(), status.Message(),
		printResourceList(qi.GetRuntime()), printResourceList(qi.GetMax()), printResourceList(qi.GetUsed()))
	if status.IsSuccess() {
		t.Errorf("PreFilter admitted a pod requesting cpu:100,memory:200 against default quota max %v (runtime quota on, Runtime=%v)",
			printResourceList(qi.GetMax()), printResourceList(qi.GetRuntime()))
		if st := gp.Reserve(context.TODO(), framework.NewCycleState(), pod, "n1"); !st.IsSuccess() {
			t.Fatalf("Reserve: %v", st.Message())
		}
	}
	used, max := qi.GetUsed(), qi.GetMax()
	for _, n := range []corev1.ResourceName{corev1.ResourceCPU, corev1.ResourceMemory} {
		u, m := used[n], max[n]
		if u.Cmp(m) > 0 {
			t.Errorf("after Reserve: used[%s]=%s exceeds max[%s]=%s although max was never lowered", n, u.String(), n, m.String())
		}
	}
}
