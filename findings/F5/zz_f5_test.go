package elasticquota

import (
	"testing"

	"github.com/koordinator-sh/koordinator/apis/extension"
)

// F5 (C15): "following parent links from any quota reaches the root (no cycles)". ValidUpdateQuota accepts a parent
// change that makes a quota its own ancestor: a <- b, then a.parent := b (2-cycle), and c.parent := c (self-parent).
// Nothing walks up from the new parent; the scheduler's leaf-to-root walk then never ends.
func TestVerifF5ReparentMustNotCloseACycle(t *testing.T) {
	qt := newFakeQuotaTopology()
	res := MakeResourceList().CPU(100).Mem(1000).Obj()
	add := func(name, parent string) {
		q := MakeQuota(name).ParentName(parent).Max(res).IsParent(true).Obj()
		qt.fillQuotaDefaultInformation(q)
		if err := qt.ValidAddQuota(q); err != nil {
			t.Fatalf("setup add %s: %v", name, err)
		}
	}
	add("a", extension.RootQuotaName)
	add("b", "a")
	reachesRoot := func(name string) bool {
		cur := name
		for i := 0; i < 10; i++ {
			if cur == extension.RootQuotaName {
				return true
			}
			info, ok := qt.quotaInfoMap[cur]
			if !ok {
				return false
			}
			cur = info.ParentName
		}
		return false
	}
	// a.parent := b although b is a child of a
	oldA := MakeQuota("a").ParentName(extension.RootQuotaName).Max(res).IsParent(true).Obj()
	qt.fillQuotaDefaultInformation(oldA)
	newA := MakeQuota("a").ParentName("b").Max(res).IsParent(true).Obj()
	qt.fillQuotaDefaultInformation(newA)
	if err := qt.ValidUpdateQuota(oldA, newA); err == nil {
		if !reachesRoot("a") || !reachesRoot("b") {
			t.Errorf("update a.parent := b (b is a's child) was accepted: parent links of a and b no longer reach the root")
		}
	}
	// self-parent
	qt2 := newFakeQuotaTopology()
	qt = qt2
	add("c", extension.RootQuotaName)
	oldC := MakeQuota("c").ParentName(extension.RootQuotaName).Max(res).IsParent(true).Obj()
	qt.fillQuotaDefaultInformation(oldC)
	newC := MakeQuota("c").ParentName("c").Max(res).IsParent(true).Obj()
	qt.fillQuotaDefaultInformation(newC)
	if err := qt.ValidUpdateQuota(oldC, newC); err == nil {
		if !reachesRoot("c") {
			t.Errorf("update c.parent := c was accepted: c is its own parent")
		}
	}
}
