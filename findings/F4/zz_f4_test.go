package cpusuppress

import (
	"testing"

	"github.com/stretchr/testify/assert"
	"go.uber.org/mock/gomock"
	"k8s.io/apimachinery/pkg/api/resource"

	"github.com/koordinator-sh/koordinator/pkg/koordlet/metriccache"
	maframework "github.com/koordinator-sh/koordinator/pkg/koordlet/metricsadvisor/framework"
	"github.com/koordinator-sh/koordinator/pkg/koordlet/qosmanager/framework"
	"github.com/koordinator-sh/koordinator/pkg/koordlet/statesinformer"
	mockstatesinformer "github.com/koordinator-sh/koordinator/pkg/koordlet/statesinformer/mockstatesinformer"
	koordletutil "github.com/koordinator-sh/koordinator/pkg/koordlet/util"
	"github.com/koordinator-sh/koordinator/pkg/koordlet/util/system"
)

// F4 (C10): "the computation never crashes the agent even when no CPU is eligible". When every CPU of the node
// is reserved (or LSE-owned / system-exclusive) both pools are empty and
// int(cpus)*len(lsrCpus)/(len(lsrCpus)+len(lsCpus)) panics with an integer divide by zero.
func TestVerifF4AllCPUsReservedDoesNotPanic(t *testing.T) {
	nodeCPUInfo := &metriccache.NodeCPUInfo{ProcessorInfos: []koordletutil.ProcessorInfo{
		{CPUID: 0, CoreID: 0, SocketID: 0, NodeID: 0},
		{CPUID: 1, CoreID: 0, SocketID: 0, NodeID: 0},
	}}
	ctrl := gomock.NewController(t)
	mockStatesInformer := mockstatesinformer.NewMockStatesInformer(ctrl)
	mockStatesInformer.EXPECT().GetAllPods().Return([]*statesinformer.PodMeta{}).AnyTimes()
	mockStatesInformer.EXPECT().GetNodeTopo().Return(genNodeResourceTopo(`{"reservedCPUs":"0-1"}`)).AnyTimes()
	r := &framework.Options{
		StatesInformer:      mockStatesInformer,
		Config:              framework.NewDefaultConfig(),
		MetricAdvisorConfig: maframework.NewDefaultConfig(),
	}
	cpuSuppress := newTestCPUSuppress(r)
	stop := make(chan struct{})
	cpuSuppress.init(stop)

	helper := system.NewFileTestUtil(t)
	testingPrepareBECgroupData(helper, []string{"pod1"}, "0-1")

	assert.NotPanics(t, func() {
		cpuSuppress.adjustByCPUSet(resource.NewQuantity(2, resource.DecimalSI), nodeCPUInfo)
	}, "adjustByCPUSet must not panic when every CPU is reserved")
}
