package resourceexecutor

import (
	"testing"

	"github.com/koordinator-sh/koordinator/pkg/koordlet/audit"
	sysutil "github.com/koordinator-sh/koordinator/pkg/koordlet/util/system"
	"github.com/koordinator-sh/koordinator/pkg/util/cache"
)

// F6 (C12): "When the rewrite completes every file holds its target value." For cpusets the top-down merge pass
// writes the UNION of old and new, but MergeFuncUpdateCgroup returns the updater carrying the TARGET value; the
// executor caches it, so the bottom-up exact pass finds the target "unchanged" and skips the write.
// Parent and child cpuset 0-3, target 2-5 on both: both files end as 0-5.
func TestVerifF6LeveledCpusetShiftEndsAtTarget(t *testing.T) {
	helper := sysutil.NewFileTestUtil(t)
	defer helper.Cleanup()
	cpusetRes, err := sysutil.GetCgroupResource(sysutil.CPUSetCPUSName)
	if err != nil {
		t.Fatal(err)
	}
	parentDir, childDir := "kubepods/besteffort", "kubepods/besteffort/pod1"
	helper.WriteCgroupFileContents(parentDir, cpusetRes, "0-3")
	helper.WriteCgroupFileContents(childDir, cpusetRes, "0-3")

	e := &ResourceUpdateExecutorImpl{ResourceCache: cache.NewCacheDefault(), Config: NewDefaultConfig()}
	stop := make(chan struct{})
	defer close(stop)
	e.Run(stop)

	pu, err := DefaultCgroupUpdaterFactory.New(sysutil.CPUSetCPUSName, parentDir, "2-5", &audit.EventHelper{})
	if err != nil {
		t.Fatal(err)
	}
	cu, err := DefaultCgroupUpdaterFactory.New(sysutil.CPUSetCPUSName, childDir, "2-5", &audit.EventHelper{})
	if err != nil {
		t.Fatal(err)
	}
	e.LeveledUpdateBatch([][]ResourceUpdater{{pu}, {cu}})

	if got := helper.ReadCgroupFileContents(parentDir, cpusetRes); got != "2-5" {
		t.Errorf("parent cpuset after the leveled update = %q, want the target %q", got, "2-5")
	}
	if got := helper.ReadCgroupFileContents(childDir, cpusetRes); got != "2-5" {
		t.Errorf("child cpuset after the leveled update = %q, want the target %q", got, "2-5")
	}
}
