package sloconfig

import (
	"testing"

	corev1 "k8s.io/api/core/v1"
	metav1 "k8s.io/apimachinery/pkg/apis/meta/v1"

	"github.com/koordinator-sh/koordinator/apis/extension"
)

// F13 (C09): "The batch capacity published for a node is never negative". Strategies from the ConfigMap are
// validated with IsColocationStrategyValid, but the per-node strategy in the node annotation is merged without
// validation, so {"batchCPUThresholdPercent":-50} reaches the calculation and a 10-CPU node publishes -5000m batch-cpu.
func TestVerifF13InvalidNodeAnnotationStrategyIsIgnored(t *testing.T) {
	strategy := DefaultColocationStrategy()
	node := &corev1.Node{ObjectMeta: metav1.ObjectMeta{Name: "n", Annotations: map[string]string{
		extension.AnnotationNodeColocationStrategy: `{"batchCPUThresholdPercent":-50}`,
	}}}
	UpdateColocationStrategyForNode(&strategy, node)
	if !IsColocationStrategyValid(&strategy) {
		t.Errorf("node annotation made the effective colocation strategy invalid: batchCPUThresholdPercent=%v", *strategy.BatchCPUThresholdPercent)
	}
	// a valid node-level override must still apply
	strategy = DefaultColocationStrategy()
	node.Annotations[extension.AnnotationNodeColocationStrategy] = `{"batchCPUThresholdPercent":70}`
	UpdateColocationStrategyForNode(&strategy, node)
	if strategy.BatchCPUThresholdPercent == nil || *strategy.BatchCPUThresholdPercent != 70 {
		t.Errorf("valid node annotation was not applied")
	}
}
