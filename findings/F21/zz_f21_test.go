package loadaware

import (
	"testing"

	corev1 "k8s.io/api/core/v1"
	metav1 "k8s.io/apimachinery/pkg/apis/meta/v1"
	"k8s.io/apimachinery/pkg/util/sets"
)

// A node pool without a nodeSelector (the catch-all way to write a pool) must not be handed the nodes an earlier
// pool of the same Balance round already processed: they would be judged again by the unchanged NodeMetric and drained
// a second time. A pool with the empty selector {} already excludes them; the nil selector did not.
func TestVerifF21(t *testing.T) {
	n1 := &corev1.Node{ObjectMeta: metav1.ObjectMeta{Name: "n1", Labels: map[string]string{"pool": "a"}}}
	n2 := &corev1.Node{ObjectMeta: metav1.ObjectMeta{Name: "n2"}}
	processed := sets.NewString("n1")
	for name, sel := range map[string]*metav1.LabelSelector{"nil selector": nil, "empty selector": {}} {
		got, err := filterNodes(sel, []*corev1.Node{n1, n2}, processed)
		if err != nil {
			t.Fatalf("%s: %v", name, err)
		}
		for _, n := range got {
			if processed.Has(n.Name) {
				t.Errorf("%s: node %s was already processed by an earlier pool in this round but is handed to the next pool again", name, n.Name)
			}
		}
		if len(got) != 1 || got[0].Name != "n2" {
			t.Errorf("%s: got %d nodes, want exactly the unprocessed node n2", name, len(got))
		}
	}
}
