package core

import (
	"testing"

	v1 "k8s.io/api/core/v1"
	metav1 "k8s.io/apimachinery/pkg/apis/meta/v1"
)

// F7 (C04): a late informer update that still carries the pre-bind object (empty node name) arrives
// after PostBind moved the pod to BoundChildren. setChild re-inserts it into PendingChildren, so the
// pod is in two sets at once.
func TestVerifF7SetChildAfterBound(t *testing.T) {
	gang := NewGang("default/g")
	pod := &v1.Pod{ObjectMeta: metav1.ObjectMeta{Namespace: "default", Name: "p"}}
	gang.setChild(pod)      // informer add
	gang.addAssumedPod(pod) // Permit
	gang.addBoundPod(pod)   // PostBind
	gang.setChild(pod)      // late update, still without node name
	id := "default/p"
	n := 0
	if _, ok := gang.PendingChildren[id]; ok {
		n++
	}
	if _, ok := gang.WaitingForBindChildren[id]; ok {
		n++
	}
	if _, ok := gang.BoundChildren[id]; ok {
		n++
	}
	if n != 1 {
		t.Fatalf("pod is in %d of the pending/waiting/bound sets (pending=%d waiting=%d bound=%d), want exactly 1",
			n, len(gang.PendingChildren), len(gang.WaitingForBindChildren), len(gang.BoundChildren))
	}
}
