package migration

import (
	"context"
	"fmt"
	"testing"

	corev1 "k8s.io/api/core/v1"
	metav1 "k8s.io/apimachinery/pkg/apis/meta/v1"
	"k8s.io/apimachinery/pkg/types"
	"k8s.io/apimachinery/pkg/util/uuid"
	"sigs.k8s.io/controller-runtime/pkg/client"

	"github.com/koordinator-sh/koordinator/apis/extension"
	sev1alpha1 "github.com/koordinator-sh/koordinator/apis/scheduling/v1alpha1"
	evictionsutil "github.com/koordinator-sh/koordinator/pkg/descheduler/evictions"
)

// f20FlakyClient fails the first `podGetFailures` reads of a Pod with a transient (non-NotFound) error.
type f20FlakyClient struct {
	client.Client
	podGetFailures int
	podGets        int
}

func (c *f20FlakyClient) Get(ctx context.Context, key client.ObjectKey, obj client.Object, opts ...client.GetOption) error {
	if _, ok := obj.(*corev1.Pod); ok {
		c.podGets++
		if c.podGetFailures > 0 {
			c.podGetFailures--
			return fmt.Errorf("transient: etcdserver: request timed out")
		}
	}
	return c.Client.Get(ctx, key, obj, opts...)
}

// f20RecordingEvictor records every eviction the controller issues.
type f20RecordingEvictor struct {
	evicted []string
}

func (e *f20RecordingEvictor) Evict(ctx context.Context, job *sev1alpha1.PodMigrationJob, pod *corev1.Pod) error {
	e.evicted = append(e.evicted, pod.Namespace+"/"+pod.Name+"@"+pod.Spec.NodeName)
	return nil
}

// F20 (C17): the same-node gate abortJobIfReserveOnSameNode used to fail open: when the read of the target pod failed with
// ANY error it returned (false, nil); prepareJobWithReservationScheduleSuccess then recorded Status.NodeName and
// ReservationScheduled=True, after which the gate is never evaluated again. With the reservation scheduled on the pod's own
// node, one transient read error was enough to let the controller evict the pod although no capacity elsewhere was secured.
// Expected: the pod is never evicted and the job ends Failed/ForbiddenMigratePod.
func TestVerifF20SameNodeGateMustNotFailOpenOnTransientGetError(t *testing.T) {
	const node = "node-n"
	reconciler := newTestReconciler()
	flaky := &f20FlakyClient{Client: reconciler.Client}
	reconciler.Client = flaky
	evictor := &f20RecordingEvictor{}
	reconciler.evictorInterpreter = evictor

	pod := &corev1.Pod{
		ObjectMeta: metav1.ObjectMeta{Namespace: "default", Name: "test-pod", UID: uuid.NewUUID()},
		Spec:       corev1.PodSpec{NodeName: node},
		Status:     corev1.PodStatus{Phase: corev1.PodRunning},
	}
	if err := reconciler.Client.Create(context.TODO(), pod); err != nil {
		t.Fatalf("setup pod: %v", err)
	}

	// the reservation of the job: scheduled (condition Scheduled=True, phase Available) on the pod's own node
	testReservation := &sev1alpha1.Reservation{
		// the order label is already there, so that setReservationOrder has nothing to write
		ObjectMeta: metav1.ObjectMeta{Name: "test-reservation", UID: uuid.NewUUID(), Labels: map[string]string{extension.LabelReservationOrder: "1"}},
		Status: sev1alpha1.ReservationStatus{
			Phase:    sev1alpha1.ReservationAvailable,
			NodeName: node,
			Conditions: []sev1alpha1.ReservationCondition{{
				Type:   sev1alpha1.ReservationConditionScheduled,
				Status: sev1alpha1.ConditionStatusTrue,
				Reason: sev1alpha1.ReasonReservationScheduled,
			}},
		},
	}
	if err := reconciler.Client.Create(context.TODO(), testReservation.DeepCopy()); err != nil {
		t.Fatalf("setup reservation: %v", err)
	}
	reconciler.reservationInterpreter = fakeReservationInterpreter{reservation: testReservation}

	job := &sev1alpha1.PodMigrationJob{
		ObjectMeta: metav1.ObjectMeta{
			Name: "test-job",
			// skips the object-limiter lookup, so that the first read of the pod is the one of the same-node gate
			Annotations: map[string]string{evictionsutil.EvictPodAnnotationKey: "true"},
		},
		Spec: sev1alpha1.PodMigrationJobSpec{
			Mode:   sev1alpha1.PodMigrationJobModeReservationFirst,
			PodRef: &corev1.ObjectReference{Namespace: pod.Namespace, Name: pod.Name, UID: pod.UID},
			ReservationOptions: &sev1alpha1.PodMigrateReservationOptions{
				ReservationRef: &corev1.ObjectReference{Name: testReservation.Name, UID: testReservation.UID},
			},
		},
	}
	if err := reconciler.Client.Create(context.TODO(), job); err != nil {
		t.Fatalf("setup job: %v", err)
	}
	job.Status.Phase = sev1alpha1.PodMigrationJobRunning
	if err := reconciler.Client.Status().Update(context.TODO(), job); err != nil {
		t.Fatalf("setup job status: %v", err)
	}

	// the first read of the pod fails with a transient error, all later reads succeed
	flaky.podGetFailures = 1
	flaky.podGets = 0

	var last sev1alpha1.PodMigrationJob
	for i := 1; i <= 6; i++ {
		cur := &sev1alpha1.PodMigrationJob{}
		if err := reconciler.Client.Get(context.TODO(), types.NamespacedName{Name: job.Name}, cur); err != nil {
			t.Fatalf("reconcile %d: read job: %v", i, err)
		}
		_, err := reconciler.doMigrate(context.TODO(), cur)
		if err := reconciler.Client.Get(context.TODO(), types.NamespacedName{Name: job.Name}, &last); err != nil {
			t.Fatalf("reconcile %d: read job back: %v", i, err)
		}
		t.Logf("reconcile %d: err=%v phase=%q reason=%q nodeName=%q podGets=%d evictions=%v",
			i, err, last.Status.Phase, last.Status.Reason, last.Status.NodeName, flaky.podGets, evictor.evicted)
	}
	if flaky.podGetFailures != 0 {
		t.Fatalf("setup: the injected read failure was never consumed")
	}

	if len(evictor.evicted) != 0 {
		t.Errorf("pod on node %q was evicted %d time(s) (%v) although the job's reservation is scheduled on the same node",
			node, len(evictor.evicted), evictor.evicted)
	}
	if last.Status.Phase != sev1alpha1.PodMigrationJobFailed || last.Status.Reason != sev1alpha1.PodMigrationJobReasonForbiddenMigratePod {
		t.Errorf("job ended phase=%q reason=%q, want %q/%q", last.Status.Phase, last.Status.Reason,
			sev1alpha1.PodMigrationJobFailed, sev1alpha1.PodMigrationJobReasonForbiddenMigratePod)
	}
}
