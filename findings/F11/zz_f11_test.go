package util

// Demonstration of finding F11 (property C09): with the memory policy "request" the published batch memory is not
// bounded by capacity - safety margin - max(system usage, reservation) - high-priority requests: system usage above
// the reservation is ignored. Fails on the current code (recorded finding, not repaired: documented as intended).

import (
	"testing"

	corev1 "k8s.io/api/core/v1"
	"k8s.io/apimachinery/pkg/api/resource"
	"k8s.io/utils/ptr"

	"github.com/koordinator-sh/koordinator/apis/configuration"
)

func TestVerifF11(t *testing.T) {
	gi := func(n int64) corev1.ResourceList {
		return corev1.ResourceList{corev1.ResourceCPU: resource.MustParse("0"), corev1.ResourceMemory: *resource.NewQuantity(n<<30, resource.BinarySI)}
	}
	strategy := &configuration.ColocationStrategy{MemoryCalculatePolicy: ptr.To(configuration.CalculateByPodRequest)}
	capacity, margin, reserved, systemUsed, hpReq := gi(100), gi(35), gi(0), gi(50), gi(10)
	out, _, _ := CalculateBatchResourceByPolicy(strategy, capacity, margin, reserved, systemUsed, hpReq, gi(0), hpReq)
	got := out[corev1.ResourceMemory]
	bound := int64(100-35-50-10) << 30 // capacity - margin - max(system usage, reservation) - HP requests = 5Gi
	if got.Value() > bound {
		t.Fatalf("batch memory %dGi published, the property's bound is %dGi (system usage of 50Gi above the reservation is ignored)", got.Value()>>30, bound>>30)
	}
}
