//verif:property C06
//verif:package pkg/scheduler/plugins/nodenumaresource
//verif:function tryBestToDistributeEvenly
//verif:bound quick: NUMA node ids {0,1,2,3}, every non-empty hint (15), every free vector over {0,1,2,3,5} per node (625), every request 0..12, for memory (whole units) and for cpu without cpu binding (milli units); thorough: free amounts also 8 and requests up to 24
//verif:stands-in-for C06 "a NUMA-level allocation hands out exactly the requested amount, never more from a NUMA node than that node had free, succeeds for a freely divisible resource whenever the hinted NUMA nodes together have enough of it free (whichever node ids the hint names)" — the per-node bounds are proved; "exactly" and "succeeds whenever enough" are sums over the hinted nodes, which no contract here expresses

package nodenumaresource

import (
	"fmt"
	"os"
	"testing"

	corev1 "k8s.io/api/core/v1"
	"k8s.io/apimachinery/pkg/api/resource"

	"github.com/koordinator-sh/koordinator/pkg/scheduler/frameworkext/topologymanager"
	"github.com/koordinator-sh/koordinator/pkg/util/bitmask"
)

// TestVerifBounded runs the real distribution on every hint / free vector / request within the bound.
func TestVerifBounded(t *testing.T) {
	frees := []int64{0, 1, 2, 3, 5}
	maxReq := int64(12)
	if os.Getenv("VERIF_BOUND_TIER") == "thorough" {
		frees = append(frees, 8)
		maxReq = 24
	}
	type mode struct {
		name  corev1.ResourceName
		milli bool
	}
	modes := []mode{{corev1.ResourceMemory, false}, {corev1.ResourceCPU, true}}
	mk := func(m mode, v int64) resource.Quantity {
		if m.milli {
			return *resource.NewMilliQuantity(v, resource.DecimalSI)
		}
		return *resource.NewQuantity(v, resource.DecimalSI)
	}
	get := func(m mode, q resource.Quantity) int64 {
		if m.milli {
			return q.MilliValue()
		}
		return q.Value()
	}
	cases, nontrivial := 0, 0
	nf := len(frees)
	for hintMask := 1; hintMask < 16; hintMask++ {
		var ids []int
		for id := 0; id < 4; id++ {
			if hintMask&(1<<id) != 0 {
				ids = append(ids, id)
			}
		}
		for code := 0; code < nf*nf*nf*nf; code++ {
			var free [4]int64
			c := code
			for id := 0; id < 4; id++ {
				free[id] = frees[c%nf]
				c /= nf
			}
			hintedFree := int64(0)
			for _, id := range ids {
				hintedFree += free[id]
			}
			for _, m := range modes {
				for req := int64(0); req <= maxReq; req++ {
					cases++
					mask, err := bitmask.NewBitMask(ids...)
					if err != nil {
						t.Fatal(err)
					}
					avail := map[int]corev1.ResourceList{}
					for id := 0; id < 4; id++ {
						avail[id] = corev1.ResourceList{m.name: mk(m, free[id])}
					}
					requests := corev1.ResourceList{m.name: mk(m, req)}
					opts := &ResourceOptions{hint: topologymanager.NUMATopologyHint{NUMANodeAffinity: mask}}
					result, reasons := tryBestToDistributeEvenly(requests, avail, opts)
					bad := ""
					sum := int64(0)
					seen := map[int]bool{}
					for _, r := range result {
						amt := get(m, r.Resources[m.name])
						sum += amt
						switch {
						case hintMask&(1<<r.Node) == 0:
							bad = fmt.Sprintf("NUMA node %d is not in the hint", r.Node)
						case seen[r.Node]:
							bad = fmt.Sprintf("NUMA node %d appears twice", r.Node)
						case amt <= 0 || amt > free[r.Node]:
							bad = fmt.Sprintf("NUMA node %d hands out %d of %d free", r.Node, amt, free[r.Node])
						}
						seen[r.Node] = true
					}
					left := get(m, requests[m.name])
					if bad == "" && sum+left != req {
						bad = fmt.Sprintf("handed out %d, left %d, requested %d", sum, left, req)
					}
					if bad == "" && (len(reasons) == 0) != (left == 0) {
						bad = fmt.Sprintf("reasons %v but %d left", reasons, left)
					}
					if bad == "" && hintedFree >= req && len(reasons) != 0 {
						bad = fmt.Sprintf("the hinted nodes have %d free for a request of %d, yet: %v", hintedFree, req, reasons)
					}
					if req >= 2 && len(ids) >= 2 && hintedFree >= req {
						nontrivial++
					}
					if bad != "" {
						fmt.Printf("VERIF-BOUNDED cases=%d nontrivial=%d\n", cases, nontrivial)
						fmt.Printf("VERIF-BOUNDED-FAIL resource %s, hint %v, free per node %v, request %d: result %+v reasons %v: %s\n", m.name, ids, free, req, result, reasons, bad)
						t.FailNow()
					}
				}
			}
		}
	}
	fmt.Printf("VERIF-BOUNDED cases=%d nontrivial=%d\n", cases, nontrivial)
}
