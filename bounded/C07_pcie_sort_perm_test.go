//verif:property C07
//verif:package pkg/scheduler/plugins/deviceshare
//verif:function sortDeviceResourcesByPreferredPCIe
//verif:bound quick: every list of 0..5 candidate devices (distinct minors, in every order), each device without info, without topology or on one of 3 PCIe switches, every set of preferred switches; thorough: 0..6 devices
//verif:stands-in-for C07 "a successful allocation gives the pod the requested number of distinct devices": the candidate order handed to the allocator comes from this function, whose contract (#from: every element is an input candidate with its own resource list; #distinct: distinct minors stay distinct — i.e. the result is a permutation of the input) is trusted (assumed) in the proof: the round-robin regrouping through a map of slices is outside what the engine models

package deviceshare

import (
	"fmt"
	"os"
	"testing"

	corev1 "k8s.io/api/core/v1"
	"k8s.io/apimachinery/pkg/api/resource"
	"k8s.io/apimachinery/pkg/util/sets"

	schedulingv1alpha1 "github.com/koordinator-sh/koordinator/apis/scheduling/v1alpha1"
)

func vbPermutations(n int) [][]int {
	if n == 0 {
		return [][]int{{}}
	}
	var out [][]int
	for _, p := range vbPermutations(n - 1) {
		for pos := 0; pos <= len(p); pos++ {
			q := append(append(append([]int{}, p[:pos]...), n-1), p[pos:]...)
			out = append(out, q)
		}
	}
	return out
}

// TestVerifBounded: the result is a permutation of the input candidates (same minors, each with the resource list
// it came with), for every placement of the devices on PCIe switches and every preference.
func TestVerifBounded(t *testing.T) {
	maxN := 5
	if os.Getenv("VERIF_BOUND_TIER") == "thorough" {
		maxN = 6
	}
	switches := []string{"pcie-a", "pcie-b", "pcie-c"}
	const kinds = 5 // 0 no info, 1 info without topology, 2..4 on switch a/b/c
	minors := []int{4, 0, 7, 2, 9, 5}
	cases, nontrivial := 0, 0
	for n := 0; n <= maxN; n++ {
		total := 1
		for k := 0; k < n; k++ {
			total *= kinds
		}
		perms := vbPermutations(n)
		for code := 0; code < total; code++ {
			infos := map[int]*schedulingv1alpha1.DeviceInfo{}
			c := code
			for k := 0; k < n; k++ {
				kind := c % kinds
				c /= kinds
				switch {
				case kind == 1:
					infos[minors[k]] = &schedulingv1alpha1.DeviceInfo{}
				case kind >= 2:
					infos[minors[k]] = &schedulingv1alpha1.DeviceInfo{Topology: &schedulingv1alpha1.DeviceTopology{PCIEID: switches[kind-2]}}
				}
			}
			for pref := 0; pref < 8; pref++ {
				preferred := sets.NewString()
				for i, s := range switches {
					if pref&(1<<i) != 0 {
						preferred.Insert(s)
					}
				}
				for _, perm := range perms {
					cases++
					in := make([]deviceResourceMinorPair, n)
					lists := map[int]corev1.ResourceList{}
					for i, pi := range perm {
						rl := corev1.ResourceList{"example.com/dev": *resource.NewQuantity(int64(100+minors[pi]), resource.DecimalSI)}
						lists[minors[pi]] = rl
						in[i] = deviceResourceMinorPair{minor: minors[pi], resources: rl, score: int64(pi)}
					}
					out := sortDeviceResourcesByPreferredPCIe(in, preferred, infos)
					if n >= 2 && pref != 0 {
						nontrivial++
					}
					bad := ""
					if len(out) != n {
						bad = fmt.Sprintf("%d candidates in, %d out", n, len(out))
					}
					seen := map[int]bool{}
					for _, p := range out {
						q, ok := lists[p.minor]
						switch {
						case !ok:
							bad = fmt.Sprintf("minor %d was not a candidate", p.minor)
						case seen[p.minor]:
							bad = fmt.Sprintf("minor %d appears twice", p.minor)
						case len(p.resources) != 1 || !p.resources["example.com/dev"].Equal(q["example.com/dev"]):
							bad = fmt.Sprintf("minor %d carries another device's resource list", p.minor)
						}
						seen[p.minor] = true
					}
					if bad != "" {
						fmt.Printf("VERIF-BOUNDED cases=%d nontrivial=%d\n", cases, nontrivial)
						fmt.Printf("VERIF-BOUNDED-FAIL candidates (minor order) %v, device kinds code %d, preferred %v: result %+v: %s\n", perm, code, preferred.List(), out, bad)
						t.FailNow()
					}
				}
			}
		}
	}
	fmt.Printf("VERIF-BOUNDED cases=%d nontrivial=%d\n", cases, nontrivial)
}
