//verif:property C15
//verif:package pkg/webhook/elasticquota
//verif:function (*quotaTopology).checkParentQuotaInfo
//verif:bound quick: every well-formed forest of 1..6 quotas below the root (every acyclic parent assignment), every quota re-parented to every quota or to the root; thorough: 1..7 quotas
//verif:stands-in-for C15 "admitted quotas form a tree": a re-parenting that would make a quota its own ancestor is rejected for cycles of EVERY length (the contracts prove lengths 1..3; general reachability needs a transitive closure), and no cycle-free re-parenting is refused by this check

package elasticquota

import (
	"fmt"
	"os"
	"testing"

	"github.com/koordinator-sh/koordinator/apis/extension"
)

// TestVerifBounded: on every forest within the bound, checkParentQuotaInfo(q, p) fails exactly when p is q itself or a
// descendant of q (all quotas are marked as parents, so no other rule of the check applies).
func TestVerifBounded(t *testing.T) {
	maxN := 6
	if os.Getenv("VERIF_BOUND_TIER") == "thorough" {
		maxN = 7
	}
	name := func(i int) string {
		if i < 0 {
			return extension.RootQuotaName
		}
		return fmt.Sprintf("q%d", i)
	}
	cases, nontrivial := 0, 0
	for n := 1; n <= maxN; n++ {
		parent := make([]int, n) // -1 = root
		var rec func(k int)
		run := func() {
			// acyclic?
			for i := 0; i < n; i++ {
				a, steps := parent[i], 0
				for a >= 0 && steps <= n {
					a = parent[a]
					steps++
				}
				if a >= 0 {
					return
				}
			}
			qt := NewQuotaTopology(nil)
			for i := 0; i < n; i++ {
				qt.quotaInfoMap[name(i)] = NewQuotaInfo(true, true, name(i), name(parent[i]))
				if qt.quotaHierarchyInfo[name(i)] == nil {
					qt.quotaHierarchyInfo[name(i)] = map[string]struct{}{}
				}
			}
			for i := 0; i < n; i++ {
				qt.quotaHierarchyInfo[name(parent[i])][name(i)] = struct{}{}
			}
			for q := 0; q < n; q++ {
				for p := -1; p < n; p++ {
					cases++
					// is p == q or a descendant of q?
					under := false
					for a := p; a >= 0; a = parent[a] {
						if a == q {
							under = true
							break
						}
					}
					if under && p != q && parent[p] != q {
						nontrivial++ // a cycle longer than two
					}
					err := qt.checkParentQuotaInfo(name(q), name(p))
					if (err != nil) != under {
						fmt.Printf("VERIF-BOUNDED cases=%d nontrivial=%d\n", cases, nontrivial)
						fmt.Printf("VERIF-BOUNDED-FAIL parents %v (-1 = root): re-parenting q%d under %s: got error %v, want rejected=%v\n", parent, q, name(p), err, under)
						t.FailNow()
					}
				}
			}
		}
		rec = func(k int) {
			if k == n {
				run()
				return
			}
			for p := -1; p < n; p++ {
				if p == k {
					continue
				}
				parent[k] = p
				rec(k + 1)
			}
		}
		rec(0)
	}
	fmt.Printf("VERIF-BOUNDED cases=%d nontrivial=%d\n", cases, nontrivial)
}
