//verif:property C13
//verif:package apis/extension
//verif:function SetExtendedResourceSpec, GetExtendedResourceSpec
//verif:bound quick and thorough: summaries of 0..3 containers, each with requests and limits drawn from {no list, empty list, batch-cpu only, batch-cpu and batch-memory} with amounts {0, 500, 2Gi-scale}, written onto pods with no annotation map / other annotations / a stale summary
//verif:stands-in-for C13 "the summary annotation ... holds exactly each listed container's batch amounts" across the codec: the two functions are JSON codecs (encoding/json is not modelled), their contracts are trusted (assumed) in the proof; this run checks the real bodies: writing sets exactly this annotation and leaves every other one alone, and what is read back equals, container by container and amount by amount, what was written

package extension

import (
	"fmt"
	"testing"

	corev1 "k8s.io/api/core/v1"
	"k8s.io/apimachinery/pkg/api/resource"
	metav1 "k8s.io/apimachinery/pkg/apis/meta/v1"
)

func TestVerifBounded(t *testing.T) {
	lists := []corev1.ResourceList{
		nil,
		{},
		{BatchCPU: *resource.NewQuantity(500, resource.DecimalSI)},
		{BatchCPU: *resource.NewQuantity(0, resource.DecimalSI), BatchMemory: *resource.NewQuantity(3<<30+7, resource.BinarySI)},
		{BatchCPU: *resource.NewQuantity(1999, resource.DecimalSI), BatchMemory: *resource.NewQuantity(0, resource.BinarySI)},
	}
	var shapes []ExtendedResourceContainerSpec
	for _, rq := range lists {
		for _, lm := range lists {
			shapes = append(shapes, ExtendedResourceContainerSpec{Requests: rq, Limits: lm})
		}
	}
	annos := []map[string]string{nil, {"other": "x", "koordinator.sh/else": "y"}, {AnnotationExtendedResourceSpec: `{"containers":{"stale":{}}}`, "other": "x"}}
	same := func(a, b corev1.ResourceList) bool {
		if len(a) != len(b) {
			return false
		}
		for k, v := range a {
			w, ok := b[k]
			if !ok || v.Cmp(w) != 0 {
				return false
			}
		}
		return true
	}
	cases, nontrivial := 0, 0
	fail := func(format string, args ...interface{}) {
		fmt.Printf("VERIF-BOUNDED cases=%d nontrivial=%d\n", cases, nontrivial)
		fmt.Printf("VERIF-BOUNDED-FAIL "+format+"\n", args...)
		t.FailNow()
	}
	ns := len(shapes)
	for n := 0; n <= 3; n++ {
		total := 1
		for k := 0; k < n; k++ {
			total *= ns
		}
		for code := 0; code < total; code++ {
			spec := &ExtendedResourceSpec{}
			if n > 0 {
				spec.Containers = map[string]ExtendedResourceContainerSpec{}
			}
			c := code
			for k := 0; k < n; k++ {
				spec.Containers[fmt.Sprintf("c%d", k)] = shapes[c%ns]
				c /= ns
			}
			for ai, anno := range annos {
				cases++
				if n >= 2 {
					nontrivial++
				}
				pod := &corev1.Pod{ObjectMeta: metav1.ObjectMeta{Name: "p"}}
				if anno != nil {
					pod.Annotations = map[string]string{}
					for k, v := range anno {
						pod.Annotations[k] = v
					}
				}
				if err := SetExtendedResourceSpec(pod, spec); err != nil {
					fail("spec %+v: SetExtendedResourceSpec: %v", spec, err)
				}
				if _, ok := pod.Annotations[AnnotationExtendedResourceSpec]; !ok {
					fail("spec %+v, annotations #%d: the summary annotation was not written", spec, ai)
				}
				for k, v := range anno {
					if k != AnnotationExtendedResourceSpec && pod.Annotations[k] != v {
						fail("spec %+v, annotations #%d: annotation %q changed", spec, ai, k)
					}
				}
				for k := range pod.Annotations {
					if _, ok := anno[k]; !ok && k != AnnotationExtendedResourceSpec {
						fail("spec %+v, annotations #%d: annotation %q appeared", spec, ai, k)
					}
				}
				got, err := GetExtendedResourceSpec(pod.Annotations)
				if err != nil || got == nil {
					fail("spec %+v: reading back: %v", spec, err)
				}
				if len(got.Containers) != len(spec.Containers) {
					fail("spec %+v: %d containers written, %d read back", spec, len(spec.Containers), len(got.Containers))
				}
				for name, w := range spec.Containers {
					g, ok := got.Containers[name]
					if !ok || !same(g.Requests, w.Requests) || !same(g.Limits, w.Limits) {
						fail("container %s: wrote %+v, read back %+v (present %v)", name, w, g, ok)
					}
				}
			}
		}
	}
	fmt.Printf("VERIF-BOUNDED cases=%d nontrivial=%d\n", cases, nontrivial)
}
