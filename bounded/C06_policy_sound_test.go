//verif:property C06
//verif:package pkg/scheduler/plugins/nodenumaresource
//verif:function satisfiedRequiredCPUBindPolicy (determineFullPCPUs, determineSpreadByPCPUs)
//verif:bound quick: 10 topologies of at most 8 CPUs (sockets x NUMA nodes x cores x threads, 1, 2 or 4 threads per core), every subset of the CPUs, both required policies; thorough: also 3 topologies of 12 CPUs
//verif:stands-in-for C06 "a required full-core or spread policy that is reported satisfied really is" (a cardinality argument over the cores of a CPU set; no contract decides it)

package nodenumaresource

import (
	"fmt"
	"os"
	"testing"

	schedulingconfig "github.com/koordinator-sh/koordinator/pkg/scheduler/apis/config"
	"github.com/koordinator-sh/koordinator/pkg/util/cpuset"
)

func vbPolicyTopology(numSockets, nodesPerSocket, coresPerNode, cpusPerCore int) *CPUTopology {
	topo := &CPUTopology{
		NumSockets: numSockets,
		NumNodes:   nodesPerSocket * numSockets,
		NumCores:   coresPerNode * nodesPerSocket * numSockets,
		NumCPUs:    cpusPerCore * coresPerNode * nodesPerSocket * numSockets,
		CPUDetails: make(map[int]CPUInfo),
	}
	var nodeID, coreID, cpuID int
	for s := 0; s < numSockets; s++ {
		for n := 0; n < nodesPerSocket; n++ {
			for c := 0; c < coresPerNode; c++ {
				for p := 0; p < cpusPerCore; p++ {
					topo.CPUDetails[cpuID] = CPUInfo{SocketID: s, NodeID: nodeID, CoreID: coreID, CPUID: cpuID}
					cpuID++
				}
				coreID++
			}
			nodeID++
		}
	}
	return topo
}

// TestVerifBounded: whenever the real check reports a required policy as satisfied, the CPU set really consists of
// whole cores (FullPCPUs) resp. of CPUs on pairwise different cores (SpreadByPCPUs).
func TestVerifBounded(t *testing.T) {
	shapes := [][4]int{{1, 1, 2, 2}, {1, 2, 2, 2}, {2, 1, 2, 2}, {2, 1, 1, 2}, {1, 1, 4, 1}, {2, 2, 1, 2}, {2, 1, 2, 1}, {1, 2, 1, 2}, {1, 1, 2, 4}, {1, 2, 1, 4}}
	if os.Getenv("VERIF_BOUND_TIER") == "thorough" {
		shapes = append(shapes, [4]int{1, 2, 3, 2}, [4]int{2, 1, 3, 2}, [4]int{1, 1, 3, 4})
	}
	cases, nontrivial := 0, 0
	for _, sh := range shapes {
		topo := vbPolicyTopology(sh[0], sh[1], sh[2], sh[3])
		n := topo.NumCPUs
		for mask := 0; mask < 1<<n; mask++ {
			var ids []int
			perCore := map[int]int{}
			for c := 0; c < n; c++ {
				if mask&(1<<c) != 0 {
					ids = append(ids, c)
					perCore[topo.CPUDetails[c].CoreID]++
				}
			}
			whole, spread := true, true
			for _, k := range perCore {
				whole = whole && k == sh[3]
				spread = spread && k == 1
			}
			for _, pol := range []schedulingconfig.CPUBindPolicy{schedulingconfig.CPUBindPolicyFullPCPUs, schedulingconfig.CPUBindPolicySpreadByPCPUs} {
				cases++
				err := satisfiedRequiredCPUBindPolicy(pol, cpuset.NewCPUSet(ids...), topo)
				if err != nil {
					continue
				}
				nontrivial++
				really := whole
				if pol == schedulingconfig.CPUBindPolicySpreadByPCPUs {
					really = spread
				}
				if !really {
					fmt.Printf("VERIF-BOUNDED cases=%d nontrivial=%d\n", cases, nontrivial)
					fmt.Printf("VERIF-BOUNDED-FAIL topology sockets=%d nodes/socket=%d cores/node=%d threads=%d, cpus %v (CPUs per touched core: %v): required policy %q is reported satisfied but is not\n", sh[0], sh[1], sh[2], sh[3], ids, perCore, pol)
					t.FailNow()
				}
			}
		}
	}
	fmt.Printf("VERIF-BOUNDED cases=%d nontrivial=%d\n", cases, nontrivial)
}
