//verif:property C02
//verif:package pkg/scheduler/plugins/elasticquota/core
//verif:function (*quotaTree).redistribution, (*quotaTree).iterationForRedistribution
//verif:bound quick: every multiset of 0..3 siblings with request in {0,1,4,7}, min in {0,2}, guarantee in {0,3}, weight in {0,1,3}, lend in {true,false}, both name orders, totals {0,1,2,3,5,8,13,40}, at scale 1 and scale 2^36+7, every order of the unsatisfied siblings; thorough: up to 4 siblings
//verif:stands-in-for C02 "the siblings together never get more than the parent has whenever their minimums fit ... handed to still-unsatisfied siblings until every request is met or nothing is left ... exact in integers ... does not depend on iteration order" (sum and two-run statements; the contracts decide the per-sibling bounds only)

package core

import (
	"fmt"
	"os"
	"sort"
	"testing"
)

type vbSibling struct {
	req, min, gua, w int64
	lend             bool
}

func vbMax(a, b int64) int64 {
	if a > b {
		return a
	}
	return b
}

func vbMin(a, b int64) int64 {
	if a < b {
		return a
	}
	return b
}

func vbPerms(n int) [][]int {
	if n == 0 {
		return [][]int{{}}
	}
	var out [][]int
	for _, p := range vbPerms(n - 1) {
		for pos := 0; pos <= len(p); pos++ {
			q := append(append(append([]int{}, p[:pos]...), n-1), p[pos:]...)
			out = append(out, q)
		}
	}
	return out
}

// TestVerifBounded runs the real division on every sibling set within the bound.
func TestVerifBounded(t *testing.T) {
	maxN := 3
	if os.Getenv("VERIF_BOUND_TIER") == "thorough" {
		maxN = 4
	}
	reqs, mins, guas, ws := []int64{0, 1, 4, 7}, []int64{0, 2}, []int64{0, 3}, []int64{0, 1, 3}
	var opts []vbSibling
	for _, r := range reqs {
		for _, m := range mins {
			for _, g := range guas {
				for _, w := range ws {
					opts = append(opts, vbSibling{r, m, g, w, true}, vbSibling{r, m, g, w, false})
				}
			}
		}
	}
	totals := []int64{0, 1, 2, 3, 5, 8, 13, 40}
	scales := []int64{1, 1<<36 + 7}
	nameSets := [][]string{{"a", "b", "c", "d"}, {"d", "c", "b", "a"}}
	cases, nontrivial := 0, 0
	fail := func(format string, args ...interface{}) {
		fmt.Printf("VERIF-BOUNDED cases=%d nontrivial=%d\n", cases, nontrivial)
		fmt.Printf("VERIF-BOUNDED-FAIL "+format+"\n", args...)
		t.FailNow()
	}
	idx := make([]int, maxN)
	var rec func(n, k, from int)
	run := func(n int) {
		for _, scale := range scales {
			sib := make([]vbSibling, n)
			for i := 0; i < n; i++ {
				o := opts[idx[i]]
				sib[i] = vbSibling{o.req * scale, o.min * scale, o.gua * scale, o.w, o.lend}
			}
			for _, names := range nameSets {
				for _, tot := range totals {
					total := tot * scale
					cases++
					qt := NewQuotaTree()
					for i, s := range sib {
						qt.insert(names[i], s.w, s.req, s.min, s.gua, s.lend)
					}
					qt.redistribution(total)
					sumM, sumRun := int64(0), int64(0)
					unsat := false
					for i, s := range sib {
						_, nd := qt.find(names[i])
						m := vbMax(s.min, s.gua)
						sumM += m
						sumRun += nd.runtimeQuota
						if nd.runtimeQuota < vbMin(s.req, m) || nd.runtimeQuota > vbMax(s.req, m) {
							fail("siblings %+v names %v total %d: sibling %s got %d, outside [min(request,minimum), max(request,minimum)] = [%d, %d]", sib, names[:n], total, names[i], nd.runtimeQuota, vbMin(s.req, m), vbMax(s.req, m))
						}
						if s.w > 0 && nd.runtimeQuota < s.req {
							unsat = true
						}
					}
					if sumM <= total {
						if sumRun > total {
							fail("siblings %+v names %v total %d: minimums fit (%d) but the siblings together got %d", sib, names[:n], total, sumM, sumRun)
						}
						if unsat && sumRun != total {
							fail("siblings %+v names %v total %d: a weighted sibling is below its request although %d of %d is left undistributed", sib, names[:n], total, total-sumRun, total)
						}
						if unsat {
							nontrivial++
						}
					}
					// order independence: the sharing rounds on every order of the unsatisfied siblings
					var adj []int
					left, wsum := total, int64(0)
					for i, s := range sib {
						m := vbMax(s.min, s.gua)
						switch {
						case s.req > m:
							adj = append(adj, i)
							wsum += s.w
							left -= m
						case s.lend:
							left -= s.req
						default:
							left -= m
						}
					}
					if left <= 0 || len(adj) < 2 {
						continue
					}
					for _, p := range vbPerms(len(adj)) {
						nodes := make([]*quotaNode, len(adj))
						for k, pi := range p {
							s := sib[adj[pi]]
							nodes[k] = NewQuotaNode(names[adj[pi]], s.w, s.req, s.min, s.gua, s.lend)
							nodes[k].runtimeQuota = vbMax(s.min, s.gua)
						}
						NewQuotaTree().iterationForRedistribution(left, wsum, nodes)
						sort.Slice(nodes, func(a, b int) bool { return nodes[a].quotaName < nodes[b].quotaName })
						for _, nd := range nodes {
							_, ref := qt.find(nd.quotaName)
							if ref.runtimeQuota != nd.runtimeQuota {
								fail("siblings %+v names %v total %d: sibling %s gets %d from redistribution but %d when the unsatisfied siblings are visited in order %v", sib, names[:n], total, nd.quotaName, ref.runtimeQuota, nd.runtimeQuota, p)
							}
						}
					}
				}
			}
		}
	}
	rec = func(n, k, from int) {
		if k == n {
			run(n)
			return
		}
		for o := from; o < len(opts); o++ {
			idx[k] = o
			rec(n, k+1, o)
		}
	}
	for n := 0; n <= maxN; n++ {
		rec(n, 0, 0)
	}
	fmt.Printf("VERIF-BOUNDED cases=%d nontrivial=%d\n", cases, nontrivial)
}
