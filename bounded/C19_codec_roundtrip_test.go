//verif:property C19
//verif:package apis/extension
//verif:function SetResourceStatus/GetResourceStatus, SetResourceSpec/GetResourceSpec, SetDeviceAllocations/GetDeviceAllocations, SetReservationAllocated/GetReservationAllocated
//verif:bound quick and thorough: resource status with cpuset in {"", "0-3", "0,2,5-7"} and 0..3 NUMA entries over node ids {0,1,3} with cpu (milli) and memory amounts; resource spec over all 4x4x4 policy values; device allocations of 0..2 device types with 0..2 minors each, fractional amounts; reservation assignments over 3 names x 3 uids; pods with no / other / stale annotations
//verif:stands-in-for C19 codec half: "the state rebuilt from what is persisted on the pods equals the live state" needs the value decoded after a restart to equal the value encoded at PreBind; the decoders are `pure` (uninterpreted) in the proof and the encoders are not specified at all. This run checks the real encode-then-decode round trip of the four annotation codecs, field by field, and that each encoder touches only its own annotation

package extension

import (
	"fmt"
	"reflect"
	"testing"

	corev1 "k8s.io/api/core/v1"
	"k8s.io/apimachinery/pkg/api/resource"
	metav1 "k8s.io/apimachinery/pkg/apis/meta/v1"
	"k8s.io/apimachinery/pkg/types"

	schedulingv1alpha1 "github.com/koordinator-sh/koordinator/apis/scheduling/v1alpha1"
)

func vbSameList(a, b corev1.ResourceList) bool {
	if len(a) != len(b) {
		return false
	}
	for k, v := range a {
		w, ok := b[k]
		if !ok || v.Cmp(w) != 0 {
			return false
		}
	}
	return true
}

func TestVerifBounded(t *testing.T) {
	cases, nontrivial := 0, 0
	fail := func(format string, args ...interface{}) {
		fmt.Printf("VERIF-BOUNDED cases=%d nontrivial=%d\n", cases, nontrivial)
		fmt.Printf("VERIF-BOUNDED-FAIL "+format+"\n", args...)
		t.FailNow()
	}
	annos := []map[string]string{nil, {"other": "x"}, {AnnotationResourceStatus: `{"cpuset":"9"}`, AnnotationResourceSpec: `{}`, AnnotationDeviceAllocated: `{}`, AnnotationReservationAllocated: `{"name":"old","uid":"old"}`, "other": "x"}}
	mkPod := func(ai int) *corev1.Pod {
		pod := &corev1.Pod{ObjectMeta: metav1.ObjectMeta{Name: "p"}}
		if annos[ai] != nil {
			pod.Annotations = map[string]string{}
			for k, v := range annos[ai] {
				pod.Annotations[k] = v
			}
		}
		return pod
	}
	onlyTouched := func(pod *corev1.Pod, ai int, key string, what string) {
		if _, ok := pod.Annotations[key]; !ok {
			fail("%s: annotation %s was not written", what, key)
		}
		for k, v := range annos[ai] {
			if k != key && pod.Annotations[k] != v {
				fail("%s: annotation %q changed", what, k)
			}
		}
		for k := range pod.Annotations {
			if _, ok := annos[ai][k]; !ok && k != key {
				fail("%s: annotation %q appeared", what, k)
			}
		}
	}

	// ---- resource status (cpuset + NUMA amounts) ----
	amounts := []corev1.ResourceList{
		nil,
		{corev1.ResourceCPU: *resource.NewMilliQuantity(1500, resource.DecimalSI)},
		{corev1.ResourceCPU: *resource.NewMilliQuantity(4000, resource.DecimalSI), corev1.ResourceMemory: *resource.NewQuantity(3<<30+1, resource.BinarySI)},
	}
	nodeIDs := []int32{0, 1, 3}
	for _, cs := range []string{"", "0-3", "0,2,5-7"} {
		for n := 0; n <= 3; n++ {
			total := 1
			for k := 0; k < n; k++ {
				total *= len(amounts)
			}
			for code := 0; code < total; code++ {
				st := &ResourceStatus{CPUSet: cs}
				c := code
				for k := 0; k < n; k++ {
					st.NUMANodeResources = append(st.NUMANodeResources, NUMANodeResource{Node: nodeIDs[k], Resources: amounts[c%len(amounts)]})
					c /= len(amounts)
				}
				for ai := range annos {
					cases++
					if n >= 2 {
						nontrivial++
					}
					pod := mkPod(ai)
					if err := SetResourceStatus(pod, st); err != nil {
						fail("status %+v: %v", st, err)
					}
					onlyTouched(pod, ai, AnnotationResourceStatus, fmt.Sprintf("SetResourceStatus(%+v)", st))
					got, err := GetResourceStatus(pod.Annotations)
					if err != nil || got == nil || got.CPUSet != st.CPUSet || len(got.NUMANodeResources) != len(st.NUMANodeResources) {
						fail("status %+v read back as %+v (%v)", st, got, err)
					}
					for i := range st.NUMANodeResources {
						if got.NUMANodeResources[i].Node != st.NUMANodeResources[i].Node || !vbSameList(got.NUMANodeResources[i].Resources, st.NUMANodeResources[i].Resources) {
							fail("status %+v: NUMA entry %d read back as %+v", st, i, got.NUMANodeResources[i])
						}
					}
				}
			}
		}
	}

	// ---- resource spec (bind / exclusive policies) ----
	binds := []CPUBindPolicy{"", CPUBindPolicyDefault, CPUBindPolicyFullPCPUs, CPUBindPolicySpreadByPCPUs}
	excls := []CPUExclusivePolicy{"", CPUExclusivePolicyNone, CPUExclusivePolicyPCPULevel, CPUExclusivePolicyNUMANodeLevel}
	for _, rb := range binds {
		for _, pb := range binds {
			for _, ex := range excls {
				for ai := range annos {
					cases++
					nontrivial++
					spec := &ResourceSpec{RequiredCPUBindPolicy: rb, PreferredCPUBindPolicy: pb, PreferredCPUExclusivePolicy: ex}
					pod := mkPod(ai)
					if err := SetResourceSpec(pod, spec); err != nil {
						fail("spec %+v: %v", spec, err)
					}
					onlyTouched(pod, ai, AnnotationResourceSpec, fmt.Sprintf("SetResourceSpec(%+v)", spec))
					got, err := GetResourceSpec(pod.Annotations)
					want := *spec
					if err != nil || got == nil {
						fail("spec %+v read back as %+v (%v)", spec, got, err)
					}
					// the decoder fills an unset preferred bind policy with the default policy: everything else must be as written
					if want.PreferredCPUBindPolicy == "" {
						want.PreferredCPUBindPolicy = got.PreferredCPUBindPolicy
					}
					if *got != want {
						fail("spec %+v read back as %+v", spec, got)
					}
				}
			}
		}
	}

	// ---- device allocations ----
	devAmounts := []corev1.ResourceList{
		{},
		{ResourceGPUCore: *resource.NewQuantity(50, resource.DecimalSI), ResourceGPUMemoryRatio: *resource.NewQuantity(50, resource.DecimalSI)},
		{ResourceGPUMemory: *resource.NewQuantity(8<<30, resource.BinarySI)},
	}
	devTypes := []schedulingv1alpha1.DeviceType{schedulingv1alpha1.GPU, schedulingv1alpha1.RDMA}
	var perType [][]*DeviceAllocation
	perType = append(perType, nil)
	for _, a := range devAmounts {
		perType = append(perType, []*DeviceAllocation{{Minor: 2, Resources: a}})
		for _, b := range devAmounts {
			perType = append(perType, []*DeviceAllocation{{Minor: 0, Resources: a}, {Minor: 5, Resources: b, ID: "id-5"}})
		}
	}
	for _, g := range perType {
		for _, r := range perType {
			allocs := DeviceAllocations{}
			if g != nil {
				allocs[devTypes[0]] = g
			}
			if r != nil {
				allocs[devTypes[1]] = r
			}
			for ai := range annos {
				cases++
				if len(allocs) == 2 {
					nontrivial++
				}
				pod := mkPod(ai)
				if err := SetDeviceAllocations(pod, allocs); err != nil {
					fail("allocations %v: %v", allocs, err)
				}
				onlyTouched(pod, ai, AnnotationDeviceAllocated, "SetDeviceAllocations")
				got, err := GetDeviceAllocations(pod.Annotations)
				if err != nil || len(got) != len(allocs) {
					fail("allocations with %d device types read back with %d (%v)", len(allocs), len(got), err)
				}
				for dt, list := range allocs {
					gl := got[dt]
					if len(gl) != len(list) {
						fail("device type %s: %d allocations written, %d read back", dt, len(list), len(gl))
					}
					for i := range list {
						if gl[i] == nil || gl[i].Minor != list[i].Minor || gl[i].ID != list[i].ID || !vbSameList(gl[i].Resources, list[i].Resources) || !reflect.DeepEqual(gl[i].Extension, list[i].Extension) {
							fail("device type %s allocation %d: wrote %+v, read back %+v", dt, i, list[i], gl[i])
						}
					}
				}
			}
		}
	}

	// ---- reservation assignment ----
	for _, name := range []string{"r", "reserve-a", ""} {
		for _, uid := range []types.UID{"u-1", "0e6d5f7c-9d8e-4c57-8a51-1c9b1f0a8d11", ""} {
			for ai := range annos {
				cases++
				nontrivial++
				pod := mkPod(ai)
				r := &schedulingv1alpha1.Reservation{ObjectMeta: metav1.ObjectMeta{Name: name, UID: uid}}
				SetReservationAllocated(pod, r)
				onlyTouched(pod, ai, AnnotationReservationAllocated, "SetReservationAllocated")
				got, err := GetReservationAllocated(pod)
				if err != nil || got == nil || got.Name != name || got.UID != uid {
					fail("reservation assignment (%q, %q) read back as %+v (%v)", name, uid, got, err)
				}
			}
		}
	}
	fmt.Printf("VERIF-BOUNDED cases=%d nontrivial=%d\n", cases, nontrivial)
}
