//verif:property C05
//verif:package pkg/scheduler/frameworkext
//verif:function NewReservationInfo, (*ReservationInfo).UpdateReservation (with AddAssignedPod / RemoveAssignedPod around them)
//verif:bound quick and thorough: reservations reserving every non-empty subset of {cpu, memory, ephemeral-storage}, default or restricted policy with every subset of those names as restricted resources, 0..2 assigned pods requesting 1 unit of every dimension, then an update to every other such reservation
//verif:stands-in-for C05 ledger across a reservation update: the contracts of NewReservationInfo and UpdateReservation are trusted (assumed) in the proof because their bodies go through k8s deep-copy and selector code the engine has no source for; this run checks the real bodies against exactly those contracts (#new, #obj, #ledger: the allocated ledger is re-masked to the new reserved dimensions, the assigned pods are untouched)

package frameworkext

import (
	"encoding/json"
	"fmt"
	"testing"

	corev1 "k8s.io/api/core/v1"
	"k8s.io/apimachinery/pkg/api/resource"
	metav1 "k8s.io/apimachinery/pkg/apis/meta/v1"
	"k8s.io/apimachinery/pkg/types"

	apiext "github.com/koordinator-sh/koordinator/apis/extension"
	schedulingv1alpha1 "github.com/koordinator-sh/koordinator/apis/scheduling/v1alpha1"
)

func TestVerifBounded(t *testing.T) {
	dims := []corev1.ResourceName{corev1.ResourceCPU, corev1.ResourceMemory, corev1.ResourceEphemeralStorage}
	type shape struct {
		reserve    int // bit mask over dims, non-empty
		restricted bool
		options    int // bit mask over dims (restricted resources), 0 = none configured
	}
	var shapes []shape
	for m := 1; m < 8; m++ {
		shapes = append(shapes, shape{m, false, 0})
		for o := 0; o < 8; o++ {
			shapes = append(shapes, shape{m, true, o})
		}
	}
	mkRes := func(s shape, gen int) *schedulingv1alpha1.Reservation {
		reqs := corev1.ResourceList{}
		for i, d := range dims {
			if s.reserve&(1<<i) != 0 {
				reqs[d] = resource.MustParse("8")
			}
		}
		r := &schedulingv1alpha1.Reservation{
			ObjectMeta: metav1.ObjectMeta{Name: "r", UID: "r-uid", Generation: int64(gen), Annotations: map[string]string{}},
			Spec: schedulingv1alpha1.ReservationSpec{
				Template: &corev1.PodTemplateSpec{Spec: corev1.PodSpec{NodeName: "n", Containers: []corev1.Container{{Name: "c", Resources: corev1.ResourceRequirements{Requests: reqs}}}}},
			},
		}
		if s.restricted {
			r.Spec.AllocatePolicy = schedulingv1alpha1.ReservationAllocatePolicyRestricted
			if s.options != 0 {
				var names []corev1.ResourceName
				for i, d := range dims {
					if s.options&(1<<i) != 0 {
						names = append(names, d)
					}
				}
				data, _ := json.Marshal(&apiext.ReservationRestrictedOptions{Resources: names})
				r.Annotations[apiext.AnnotationReservationRestrictedOptions] = string(data)
			}
		}
		return r
	}
	mkPod := func(i int) *corev1.Pod {
		reqs := corev1.ResourceList{}
		for _, d := range dims {
			reqs[d] = resource.MustParse("1")
		}
		return &corev1.Pod{ObjectMeta: metav1.ObjectMeta{Namespace: "ns", Name: fmt.Sprintf("p%d", i), UID: types.UID(fmt.Sprintf("p%d", i))},
			Spec: corev1.PodSpec{NodeName: "n", Containers: []corev1.Container{{Name: "c", Resources: corev1.ResourceRequirements{Requests: reqs}}}}}
	}
	inDims := func(ri *ReservationInfo, n corev1.ResourceName) bool {
		for _, x := range ri.ResourceNames {
			if x == n {
				return true
			}
		}
		return false
	}
	cases, nontrivial := 0, 0
	fail := func(format string, args ...interface{}) {
		fmt.Printf("VERIF-BOUNDED cases=%d nontrivial=%d\n", cases, nontrivial)
		fmt.Printf("VERIF-BOUNDED-FAIL "+format+"\n", args...)
		t.FailNow()
	}
	for _, s1 := range shapes {
		for npods := 0; npods <= 2; npods++ {
			for _, s2 := range shapes {
				cases++
				r1 := mkRes(s1, 1)
				ri := NewReservationInfo(r1)
				if ri == nil || ri.Reservation != r1 || ri.AssignedPods == nil || len(ri.AssignedPods) != 0 || len(ri.Allocated) != 0 {
					fail("NewReservationInfo(%+v): not an empty ledger for the given object: %+v", s1, ri)
				}
				for i := 0; i < npods; i++ {
					ri.AddAssignedPod(mkPod(i))
				}
				for _, d := range dims {
					want := int64(0)
					if inDims(ri, d) {
						want = int64(npods)
					}
					if q := ri.Allocated[d]; q.Value() != want {
						fail("reservation %+v with %d pods: allocated %s = %d, want %d", s1, npods, d, q.Value(), want)
					}
				}
				before := map[corev1.ResourceName]int64{}
				for _, d := range dims {
					q := ri.Allocated[d]
					before[d] = q.Value()
				}
				podsBefore := map[types.UID]*PodRequirement{}
				for u, p := range ri.AssignedPods {
					podsBefore[u] = p
				}
				r2 := mkRes(s2, 2)
				ri.UpdateReservation(r2)
				if ri.Reservation != r2 {
					fail("update %+v -> %+v: the info does not point at the new object", s1, s2)
				}
				if len(ri.AssignedPods) != len(podsBefore) {
					fail("update %+v -> %+v with %d pods: assigned pods changed (%d)", s1, s2, npods, len(ri.AssignedPods))
				}
				for u, p := range podsBefore {
					if ri.AssignedPods[u] != p {
						fail("update %+v -> %+v: the record of assigned pod %s changed", s1, s2, u)
					}
				}
				if npods > 0 && s1.reserve != s2.reserve {
					nontrivial++
				}
				for _, d := range dims {
					want := int64(0)
					if inDims(ri, d) {
						want = before[d]
					}
					if q := ri.Allocated[d]; q.Value() != want {
						fail("update %+v -> %+v with %d pods: allocated %s = %d, want %d (re-masked to the dimensions %v)", s1, s2, npods, d, q.Value(), want, ri.ResourceNames)
					}
				}
				// releasing the pods afterwards gives back what was recorded, never below zero
				for i := 0; i < npods; i++ {
					ri.RemoveAssignedPod(mkPod(i))
				}
				for _, d := range dims {
					if q := ri.Allocated[d]; q.Value() != 0 {
						fail("update %+v -> %+v: after removing all %d pods allocated %s = %d", s1, s2, npods, d, q.Value())
					}
				}
			}
		}
	}
	fmt.Printf("VERIF-BOUNDED cases=%d nontrivial=%d\n", cases, nontrivial)
}
