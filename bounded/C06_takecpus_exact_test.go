//verif:property C06
//verif:package pkg/scheduler/plugins/nodenumaresource
//verif:function takeCPUs
//verif:bound quick: 8 topologies of at most 8 CPUs (sockets x NUMA nodes x cores x threads), every subset of the CPUs as the free set, no or one already allocated CPU (shared / core-exclusive / NUMA-exclusive), every request 0..free+1, 3 bind x 3 exclusive policies x 3 NUMA strategies, sharing limit 1; thorough: also sharing limit 2
//verif:stands-in-for C06 "a successful CPU-set allocation returns exactly the requested number of CPUs, all taken from CPUs that were free for this pod" for takeCPUs (cardinality of a set built by summarised pickers; the contracts decide the accumulator's bookkeeping only)

package nodenumaresource

import (
	"fmt"
	"os"
	"testing"

	schedulingconfig "github.com/koordinator-sh/koordinator/pkg/scheduler/apis/config"
	"github.com/koordinator-sh/koordinator/pkg/util/cpuset"
)

func vbTopology(numSockets, nodesPerSocket, coresPerNode, cpusPerCore int) *CPUTopology {
	topo := &CPUTopology{
		NumSockets: numSockets,
		NumNodes:   nodesPerSocket * numSockets,
		NumCores:   coresPerNode * nodesPerSocket * numSockets,
		NumCPUs:    cpusPerCore * coresPerNode * nodesPerSocket * numSockets,
		CPUDetails: make(map[int]CPUInfo),
	}
	var nodeID, coreID, cpuID int
	for s := 0; s < numSockets; s++ {
		for n := 0; n < nodesPerSocket; n++ {
			for c := 0; c < coresPerNode; c++ {
				for p := 0; p < cpusPerCore; p++ {
					topo.CPUDetails[cpuID] = CPUInfo{SocketID: s, NodeID: nodeID, CoreID: coreID, CPUID: cpuID}
					cpuID++
				}
				coreID++
			}
			nodeID++
		}
	}
	return topo
}

// TestVerifBounded runs the real takeCPUs on every free set / request / policy combination within the bound: when
// it reports success the result has exactly the requested size and lies inside the free set.
func TestVerifBounded(t *testing.T) {
	refCounts := []int{1}
	if os.Getenv("VERIF_BOUND_TIER") == "thorough" {
		refCounts = []int{1, 2}
	}
	shapes := [][4]int{{1, 1, 2, 2}, {1, 2, 2, 2}, {2, 1, 2, 2}, {2, 1, 1, 2}, {1, 1, 4, 1}, {2, 2, 1, 2}, {2, 1, 2, 1}, {1, 2, 1, 2}}
	binds := []schedulingconfig.CPUBindPolicy{schedulingconfig.CPUBindPolicyDefault, schedulingconfig.CPUBindPolicyFullPCPUs, schedulingconfig.CPUBindPolicySpreadByPCPUs}
	excls := []schedulingconfig.CPUExclusivePolicy{schedulingconfig.CPUExclusivePolicyNone, schedulingconfig.CPUExclusivePolicyPCPULevel, schedulingconfig.CPUExclusivePolicyNUMANodeLevel}
	strats := []schedulingconfig.NUMAAllocateStrategy{schedulingconfig.NUMAMostAllocated, schedulingconfig.NUMALeastAllocated, schedulingconfig.NUMADistributeEvenly}
	cases, nontrivial := 0, 0
	for _, sh := range shapes {
		topo := vbTopology(sh[0], sh[1], sh[2], sh[3])
		n := topo.NumCPUs
		for mask := 0; mask < 1<<n; mask++ {
			var free []int
			for c := 0; c < n; c++ {
				if mask&(1<<c) != 0 {
					free = append(free, c)
				}
			}
			// already allocated: nothing, or the lowest CPU outside the free set under each exclusive policy
			allocVariants := []CPUDetails{NewCPUDetails()}
			for c := 0; c < n; c++ {
				if mask&(1<<c) == 0 {
					for _, ep := range excls {
						d := NewCPUDetails()
						info := topo.CPUDetails[c]
						info.RefCount = 1
						info.ExclusivePolicy = ep
						d[c] = info
						allocVariants = append(allocVariants, d)
					}
					break
				}
			}
			for _, allocated := range allocVariants {
				for need := 0; need <= len(free)+1; need++ {
					for _, bp := range binds {
						for _, ep := range excls {
							for _, st := range strats {
								for _, rc := range refCounts {
									avail := cpuset.NewCPUSet(free...)
									got, err := takeCPUs(topo, rc, avail, allocated.Clone(), need, bp, ep, st)
									cases++
									if err != nil {
										continue
									}
									if need >= 2 {
										nontrivial++
									}
									bad := ""
									if got.Size() != need {
										bad = fmt.Sprintf("success with %d CPUs for a request of %d", got.Size(), need)
									} else if !got.IsSubsetOf(cpuset.NewCPUSet(free...)) {
										bad = "success with a CPU outside the free set"
									}
									if bad != "" {
										fmt.Printf("VERIF-BOUNDED cases=%d nontrivial=%d\n", cases, nontrivial)
										fmt.Printf("VERIF-BOUNDED-FAIL takeCPUs(topology sockets=%d nodes/socket=%d cores/node=%d threads=%d, maxRefCount=%d, free=%v, allocated=%v, need=%d, bind=%q, exclusive=%q, strategy=%q) = %v: %s\n",
											sh[0], sh[1], sh[2], sh[3], rc, free, allocated, need, bp, ep, st, got.ToSlice(), bad)
										t.FailNow()
									}
								}
							}
						}
					}
				}
			}
		}
	}
	fmt.Printf("VERIF-BOUNDED cases=%d nontrivial=%d\n", cases, nontrivial)
}
