//verif:property C10
//verif:package pkg/koordlet/qosmanager/plugins/cpusuppress
//verif:function calculateBESuppressCPUSetPolicy
//verif:bound quick: every processor list of 0..5 CPUs with distinct ids, each CPU on core 0..2, NUMA node 0..1, socket 0..1, every wanted count 0..n+1; thorough: the same up to 6 CPUs
//verif:stands-in-for C10 "distinct existing CPUs ... exactly that many whenever enough eligible CPUs exist" for the picker (the contracts only decide "at most that many")

package cpusuppress

import (
	"flag"
	"fmt"
	"io"
	"os"
	"testing"

	"k8s.io/klog/v2"

	koordletutil "github.com/koordinator-sh/koordinator/pkg/koordlet/util"
)

// TestVerifBounded runs the real picker on every processor list within the bound and checks, for each wanted
// count: enough CPUs => exactly that many are returned; too few => none; always distinct and taken from the input.
func TestVerifBounded(t *testing.T) {
	fs := flag.NewFlagSet("klog", flag.ContinueOnError)
	klog.InitFlags(fs)
	_ = fs.Set("logtostderr", "false")
	_ = fs.Set("stderrthreshold", "FATAL")
	klog.SetOutput(io.Discard)
	maxN := 5
	if os.Getenv("VERIF_BOUND_TIER") == "thorough" {
		maxN = 6
	}
	// non-contiguous ids so that an index is never mistaken for an id
	ids := []int32{3, 0, 7, 4, 12, 9}
	const opts = 3 * 2 * 2
	cases, nontrivial := 0, 0
	for n := 0; n <= maxN; n++ {
		total := 1
		for k := 0; k < n; k++ {
			total *= opts
		}
		infos := make([]koordletutil.ProcessorInfo, n)
		for code := 0; code < total; code++ {
			c := code
			for k := 0; k < n; k++ {
				o := c % opts
				c /= opts
				infos[k] = koordletutil.ProcessorInfo{CPUID: ids[k], CoreID: int32(o % 3), NodeID: int32(o / 3 % 2), SocketID: int32(o / 6)}
			}
			for want := int32(0); want <= int32(n)+1; want++ {
				in := append([]koordletutil.ProcessorInfo(nil), infos...)
				got := calculateBESuppressCPUSetPolicy(want, in)
				cases++
				bad := ""
				if int(want) <= n && len(got) != int(want) {
					bad = fmt.Sprintf("%d CPUs are enough for %d wanted but %d were returned", n, want, len(got))
				}
				if int(want) > n && len(got) != 0 {
					bad = fmt.Sprintf("only %d CPUs for %d wanted, yet %d were returned", n, want, len(got))
				}
				seen := map[int32]bool{}
				for _, id := range got {
					found := false
					for k := 0; k < n; k++ {
						found = found || ids[k] == id
					}
					if !found {
						bad = fmt.Sprintf("returned CPU %d is not in the input", id)
					}
					if seen[id] {
						bad = fmt.Sprintf("CPU %d returned twice", id)
					}
					seen[id] = true
				}
				if want >= 2 && int(want) <= n {
					nontrivial++
				}
				if bad != "" {
					fmt.Printf("VERIF-BOUNDED cases=%d nontrivial=%d\n", cases, nontrivial)
					fmt.Printf("VERIF-BOUNDED-FAIL calculateBESuppressCPUSetPolicy(%d, %+v) = %v: %s\n", want, infos, got, bad)
					t.FailNow()
				}
			}
		}
	}
	fmt.Printf("VERIF-BOUNDED cases=%d nontrivial=%d\n", cases, nontrivial)
}
