//verif:property C11
//verif:package pkg/koordlet/qosmanager/plugins/util
//verif:function IsEvictionPolicyAllowed
//verif:bound quick and thorough: every list of 0..3 entries over a vocabulary of 9 policy names (the four real ones, prefix-, suffix-, case- and domain-variants of them, the empty string) against each of the 9 names, plus pods without annotations / without the annotation / with undecodable text
//verif:stands-in-for C11 victim eligibility: "a pod that restricts the eviction policies it accepts is evicted only by a policy it lists" — the function decodes JSON by reflection, which the engine does not model, so its contract is trusted (assumed) in the proof; this run checks the real body against that contract

package util

import (
	"encoding/json"
	"fmt"
	"testing"

	corev1 "k8s.io/api/core/v1"
	metav1 "k8s.io/apimachinery/pkg/apis/meta/v1"

	apiext "github.com/koordinator-sh/koordinator/apis/extension"
)

// TestVerifBounded: IsEvictionPolicyAllowed(policy, pod) is true for a pod without the annotation, false for an
// undecodable annotation, and otherwise true exactly when the decoded list contains the policy itself.
func TestVerifBounded(t *testing.T) {
	vocab := []string{"CPUEvict", "BECPUEvict", "MemoryEvict", "BEMemoryEvict", "CPUEvictX", "cpuevict", "koordinator.sh/CPUEvict", "Evict", ""}
	cases, nontrivial := 0, 0
	fail := func(format string, args ...interface{}) {
		fmt.Printf("VERIF-BOUNDED cases=%d nontrivial=%d\n", cases, nontrivial)
		fmt.Printf("VERIF-BOUNDED-FAIL "+format+"\n", args...)
		t.FailNow()
	}
	mkPod := func(anno map[string]string) *corev1.Pod {
		return &corev1.Pod{ObjectMeta: metav1.ObjectMeta{Namespace: "ns", Name: "p", Annotations: anno}}
	}
	for _, policy := range vocab {
		cases += 4
		if !IsEvictionPolicyAllowed(policy, nil) || !IsEvictionPolicyAllowed(policy, mkPod(nil)) || !IsEvictionPolicyAllowed(policy, mkPod(map[string]string{"other": "x"})) {
			fail("policy %q: a pod without the evict-policy annotation must be allowed", policy)
		}
		if IsEvictionPolicyAllowed(policy, mkPod(map[string]string{apiext.AnnotationPodEvictPolicy: "{" + policy})) {
			fail("policy %q: an undecodable evict-policy annotation must not allow the policy", policy)
		}
	}
	var lists [][]string
	lists = append(lists, []string{})
	for _, a := range vocab {
		lists = append(lists, []string{a})
		for _, b := range vocab {
			lists = append(lists, []string{a, b})
			for _, c := range vocab {
				lists = append(lists, []string{a, b, c})
			}
		}
	}
	for _, l := range lists {
		text, _ := json.Marshal(l)
		pod := mkPod(map[string]string{apiext.AnnotationPodEvictPolicy: string(text)})
		for _, policy := range vocab {
			cases++
			want := false
			for _, e := range l {
				want = want || e == policy
			}
			if len(l) > 0 && !want {
				nontrivial++
			}
			if got := IsEvictionPolicyAllowed(policy, pod); got != want {
				fail("pod lists %s: IsEvictionPolicyAllowed(%q) = %v, want %v", text, policy, got, want)
			}
		}
	}
	fmt.Printf("VERIF-BOUNDED cases=%d nontrivial=%d\n", cases, nontrivial)
}
