//verif:property C20
//verif:package pkg/util
//verif:function MergeCfg
//verif:bound quick and thorough: for ResourceThresholdStrategy, CPUBurstStrategy (with its inlined config) and SystemStrategy: every top-level (and inlined) pointer-to-scalar and string field in {unset, value A, value B} on the base and on the patch, one field pair at a time against a background of all-unset, all-A and mixed settings of the other fields
//verif:stands-in-for C20 "field by field, the value from the more specific layer if that layer sets the field, otherwise the value of the layer below": the overlay is computed by MergeCfg through a JSON round trip (reflection), which the proof models as an uninterpreted function (trusted contract); this run checks on the real function that a field set in the patch wins, a field the patch leaves unset keeps the base value, and no other field changes

package util

import (
	"fmt"
	"reflect"
	"testing"

	slov1alpha1 "github.com/koordinator-sh/koordinator/apis/slo/v1alpha1"
)

// settable leaf fields: pointers to bool/int64 and strings, reached through inlined (anonymous) structs
func vbLeaves(v reflect.Value, path string, out *[]string, get map[string]func(root reflect.Value) reflect.Value, idx []int) {
	t := v.Type()
	for i := 0; i < t.NumField(); i++ {
		f := t.Field(i)
		fi := append(append([]int{}, idx...), i)
		switch {
		case f.Anonymous && f.Type.Kind() == reflect.Struct:
			vbLeaves(v.Field(i), path+f.Name+".", out, get, fi)
		case f.Type.Kind() == reflect.String, f.Type.Kind() == reflect.Ptr && (f.Type.Elem().Kind() == reflect.Int64 || f.Type.Elem().Kind() == reflect.Bool):
			name := path + f.Name
			*out = append(*out, name)
			get[name] = func(root reflect.Value) reflect.Value { return root.Elem().FieldByIndex(fi) }
		}
	}
}

func vbSet(f reflect.Value, state int) { // 0 unset, 1 value A, 2 value B
	switch {
	case f.Kind() == reflect.String:
		f.SetString([]string{"", "valueA", "valueB"}[state])
	case state == 0:
		f.Set(reflect.Zero(f.Type()))
	case f.Type().Elem().Kind() == reflect.Bool:
		b := state == 1
		f.Set(reflect.ValueOf(&b))
	default:
		n := int64(10 * state)
		f.Set(reflect.ValueOf(&n))
	}
}

func vbShow(f reflect.Value) string {
	if f.Kind() == reflect.Ptr {
		if f.IsNil() {
			return "unset"
		}
		return fmt.Sprint(f.Elem().Interface())
	}
	return fmt.Sprintf("%q", f.Interface())
}

func TestVerifBounded(t *testing.T) {
	cases, nontrivial := 0, 0
	protos := []interface{}{&slov1alpha1.ResourceThresholdStrategy{}, &slov1alpha1.CPUBurstStrategy{}, &slov1alpha1.SystemStrategy{}}
	for _, proto := range protos {
		typ := reflect.TypeOf(proto).Elem()
		var leaves []string
		get := map[string]func(reflect.Value) reflect.Value{}
		vbLeaves(reflect.New(typ).Elem(), "", &leaves, get, nil)
		if len(leaves) < 3 {
			t.Fatalf("%v: only %d leaf fields found", typ, len(leaves))
		}
		for li, leaf := range leaves {
			for bg := 0; bg < 4; bg++ { // background of the other fields: base/patch = unset/unset, A/unset, unset/B, A/B
				for bs := 0; bs < 3; bs++ {
					for ps := 0; ps < 3; ps++ {
						cases++
						base, patch := reflect.New(typ), reflect.New(typ)
						for oi, other := range leaves {
							if oi == li {
								continue
							}
							if bg == 1 || bg == 3 {
								vbSet(get[other](base), 1)
							}
							if bg == 2 || bg == 3 {
								vbSet(get[other](patch), 2)
							}
						}
						vbSet(get[leaf](base), bs)
						vbSet(get[leaf](patch), ps)
						want := map[string]string{}
						for _, other := range leaves {
							b, p := get[other](base), get[other](patch)
							unset := p.Kind() == reflect.Ptr && p.IsNil() || p.Kind() == reflect.String && p.String() == ""
							if unset {
								want[other] = vbShow(b)
							} else {
								want[other] = vbShow(p)
							}
						}
						if ps != 0 && bs != 0 && ps != bs {
							nontrivial++
						}
						out, err := MergeCfg(base.Interface(), patch.Interface())
						bad := ""
						if err != nil || out == nil || reflect.TypeOf(out) != reflect.PtrTo(typ) {
							bad = fmt.Sprintf("result %v (%v)", out, err)
						} else {
							res := reflect.ValueOf(out)
							for _, other := range leaves {
								if got := vbShow(get[other](res)); got != want[other] {
									bad = fmt.Sprintf("field %s = %s, want %s", other, got, want[other])
									break
								}
							}
						}
						if bad != "" {
							fmt.Printf("VERIF-BOUNDED cases=%d nontrivial=%d\n", cases, nontrivial)
							fmt.Printf("VERIF-BOUNDED-FAIL %v: field %s base state %d, patch state %d (0 unset, 1 A, 2 B), other fields background %d: %s\n", typ, leaf, bs, ps, bg, bad)
							t.FailNow()
						}
					}
				}
			}
		}
	}
	fmt.Printf("VERIF-BOUNDED cases=%d nontrivial=%d\n", cases, nontrivial)
}
