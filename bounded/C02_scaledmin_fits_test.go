//verif:property C02
//verif:package pkg/scheduler/plugins/elasticquota/core
//verif:function (*ScaleMinQuotaManager).getScaledMinQuota (after (*ScaleMinQuotaManager).update for every child)
//verif:bound quick: every ordered list of 1..3 children with min in {0,1,2,3,7} and scaling allowed or not, totals 0..15, one resource counted in milli-units (cpu) and one in whole units; thorough: 1..4 children, min also 1000003, totals also 500000 and 3000011
//verif:stands-in-for C02 "exact in integers (no unit is created ... by rounding)" for the scaled-down minimums that feed the division: when the minimums do not fit, the scalable children's scaled minimums together never exceed what the non-scalable ones leave of the total, and no child's minimum grows (a sum statement; no contract expresses it)

package core

import (
	"fmt"
	"os"
	"testing"

	v1 "k8s.io/api/core/v1"
	"k8s.io/apimachinery/pkg/api/resource"
)

// TestVerifBounded runs the real min-quota scaling on every child list within the bound.
func TestVerifBounded(t *testing.T) {
	thorough := os.Getenv("VERIF_BOUND_TIER") == "thorough"
	maxN := 3
	mins := []int64{0, 1, 2, 3, 7}
	var totals []int64
	for i := int64(0); i <= 15; i++ {
		totals = append(totals, i)
	}
	if thorough {
		maxN = 4
		mins = append(mins, 1000003)
		totals = append(totals, 500000, 3000011)
	}
	type child struct {
		min    int64
		enable bool
	}
	var opts []child
	for _, m := range mins {
		opts = append(opts, child{m, true}, child{m, false})
	}
	resNames := []v1.ResourceName{v1.ResourceCPU, "example.com/unit"}
	mk := func(rn v1.ResourceName, v int64) resource.Quantity {
		if rn == v1.ResourceCPU {
			return *resource.NewMilliQuantity(v, resource.DecimalSI)
		}
		return *resource.NewQuantity(v, resource.DecimalSI)
	}
	val := func(rn v1.ResourceName, rl v1.ResourceList) int64 {
		q := rl[rn]
		if rn == v1.ResourceCPU {
			return q.MilliValue()
		}
		return q.Value()
	}
	cases, nontrivial := 0, 0
	names := []string{"c0", "c1", "c2", "c3"}
	for n := 1; n <= maxN; n++ {
		total := 1
		for k := 0; k < n; k++ {
			total *= len(opts)
		}
		for code := 0; code < total; code++ {
			kids := make([]child, n)
			c := code
			for k := 0; k < n; k++ {
				kids[k] = opts[c%len(opts)]
				c /= len(opts)
			}
			for _, rn := range resNames {
				mgr := NewScaleMinQuotaManager()
				sumAll, sumFixed := int64(0), int64(0)
				for k, kid := range kids {
					mgr.update("parent", names[k], v1.ResourceList{rn: mk(rn, kid.min)}, kid.enable)
					sumAll += kid.min
					if !kid.enable {
						sumFixed += kid.min
					}
				}
				for _, tot := range totals {
					cases++
					sumScaled := int64(0)
					bad := ""
					for k, kid := range kids {
						ok, scaled := mgr.getScaledMinQuota(v1.ResourceList{rn: mk(rn, tot)}, "parent", names[k])
						if !kid.enable {
							continue
						}
						if !ok {
							bad = fmt.Sprintf("no answer for scalable child %s", names[k])
							break
						}
						got := val(rn, scaled)
						sumScaled += got
						if got > kid.min || got < 0 {
							bad = fmt.Sprintf("child %s: minimum %d became %d", names[k], kid.min, got)
						}
						if sumAll <= tot && got != kid.min {
							bad = fmt.Sprintf("child %s: the minimums fit (%d <= %d) but its minimum %d became %d", names[k], sumAll, tot, kid.min, got)
						}
					}
					if bad == "" && sumAll > tot {
						nontrivial++
						room := tot - sumFixed
						if room < 0 {
							room = 0
						}
						if sumScaled > room {
							bad = fmt.Sprintf("scaled minimums of the scalable children sum to %d, more than the %d left of the total by the non-scalable ones", sumScaled, room)
						}
					}
					if bad != "" {
						fmt.Printf("VERIF-BOUNDED cases=%d nontrivial=%d\n", cases, nontrivial)
						fmt.Printf("VERIF-BOUNDED-FAIL resource %s, children (min, scalable) %+v, total %d: %s\n", rn, kids, tot, bad)
						t.FailNow()
					}
				}
			}
		}
	}
	fmt.Printf("VERIF-BOUNDED cases=%d nontrivial=%d\n", cases, nontrivial)
}
