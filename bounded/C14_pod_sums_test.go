//verif:property C14
//verif:package pkg/koordlet/runtimehooks/hooks/batchresource
//verif:function (*plugin).SetPodCPUShares, (*plugin).SetPodCFSQuota, (*plugin).SetPodMemoryLimit
//verif:bound quick: every pod of 0..3 containers, each with batch-cpu request in {no list, absent, 0, 250, 1999}, batch-cpu limit in {no list, absent, 0, 500, 1500} and batch-memory limit in {absent, 0, 4096} (when a limit list exists), CFS quota on/off, normalization ratio in {unset, 1.0, 1.5, 2.0}; thorough: 0..4 containers
//verif:stands-in-for C14 "the pod-level values are the same conversion applied to the sums over containers, unlimited as soon as one container is unlimited" — the contracts prove the consequences (at least every container, at least any two containers' sum, equal for a single container); the exact sum over all containers has no recursive spec here

package batchresource

import (
	"fmt"
	"math"
	"os"
	"testing"

	corev1 "k8s.io/api/core/v1"
	"k8s.io/apimachinery/pkg/api/resource"

	apiext "github.com/koordinator-sh/koordinator/apis/extension"
	"github.com/koordinator-sh/koordinator/pkg/koordlet/runtimehooks/protocol"
	sysutil "github.com/koordinator-sh/koordinator/pkg/koordlet/util/system"
)

type vbContainer struct {
	req, lim, mem int64 // -2 = no list at all, -1 = list without the entry, otherwise the amount
}

// TestVerifBounded runs the three pod-level setters on every pod within the bound and compares with the conversion of
// the sums over the containers (the conversions themselves are under contract).
func TestVerifBounded(t *testing.T) {
	maxN := 3
	if os.Getenv("VERIF_BOUND_TIER") == "thorough" {
		maxN = 4
	}
	var opts []vbContainer
	for _, rq := range []int64{-2, -1, 0, 250, 1999} {
		for _, lm := range []int64{-2, -1, 0, 500, 1500} {
			if lm == -2 {
				opts = append(opts, vbContainer{rq, -2, -2})
				continue
			}
			for _, mm := range []int64{-1, 0, 4096} {
				opts = append(opts, vbContainer{rq, lm, mm})
			}
		}
	}
	ratios := []float64{-1, 1.0, 1.5, 2.0}
	cases, nontrivial := 0, 0
	fail := func(format string, args ...interface{}) {
		fmt.Printf("VERIF-BOUNDED cases=%d nontrivial=%d\n", cases, nontrivial)
		fmt.Printf("VERIF-BOUNDED-FAIL "+format+"\n", args...)
		t.FailNow()
	}
	idx := make([]int, maxN)
	var rec func(n, k, from int)
	run := func(n int) {
		cs := make([]vbContainer, n)
		spec := &apiext.ExtendedResourceSpec{Containers: map[string]apiext.ExtendedResourceContainerSpec{}}
		sumReq, sumLim, sumMem := int64(0), int64(0), int64(0)
		for i := 0; i < n; i++ {
			c := opts[idx[i]]
			cs[i] = c
			var e apiext.ExtendedResourceContainerSpec
			if c.req != -2 {
				e.Requests = corev1.ResourceList{}
				if c.req >= 0 {
					e.Requests[apiext.BatchCPU] = *resource.NewQuantity(c.req, resource.DecimalSI)
				}
			}
			if c.lim != -2 {
				e.Limits = corev1.ResourceList{}
				if c.lim >= 0 {
					e.Limits[apiext.BatchCPU] = *resource.NewQuantity(c.lim, resource.DecimalSI)
				}
				if c.mem >= 0 {
					e.Limits[apiext.BatchMemory] = *resource.NewQuantity(c.mem, resource.BinarySI)
				}
			}
			spec.Containers[fmt.Sprintf("c%d", i)] = e
			if c.req > 0 {
				sumReq += c.req
			}
			if sumLim >= 0 {
				if c.lim <= 0 {
					sumLim = -1
				} else {
					sumLim += c.lim
				}
			}
			if sumMem >= 0 {
				if c.lim == -2 || c.mem <= 0 {
					sumMem = -1
				} else {
					sumMem += c.mem
				}
			}
		}
		for _, enabled := range []bool{true, false} {
			for _, ratio := range ratios {
				cases++
				if n >= 2 {
					nontrivial++
				}
				rule := newRule()
				en := enabled
				rule.enableCFSQuota = &en
				if ratio > 0 {
					r := ratio
					rule.cpuNormalizationRatio = &r
				}
				p := &plugin{rule: rule}
				ctx := &protocol.PodContext{}
				ctx.Request.Labels = map[string]string{apiext.LabelPodQoS: string(apiext.QoSBE)}
				ctx.Request.ExtendedResources = spec
				if err := p.SetPodCPUShares(ctx); err != nil {
					fail("containers %+v: SetPodCPUShares: %v", cs, err)
				}
				if err := p.SetPodCFSQuota(ctx); err != nil {
					fail("containers %+v: SetPodCFSQuota: %v", cs, err)
				}
				if err := p.SetPodMemoryLimit(ctx); err != nil {
					fail("containers %+v: SetPodMemoryLimit: %v", cs, err)
				}
				res := ctx.Response.Resources
				if res.CPUShares == nil || res.CFSQuota == nil || res.MemoryLimit == nil {
					fail("containers %+v: a pod-level value was not set: %+v", cs, res)
				}
				if want := sysutil.MilliCPUToShares(sumReq); *res.CPUShares != want {
					fail("containers (req, lim, mem; -2 no list, -1 absent) %+v: pod cpu shares %d, conversion of the summed requests %d is %d", cs, *res.CPUShares, sumReq, want)
				}
				wantQuota := int64(-1)
				if enabled {
					wantQuota = sysutil.MilliCPUToQuota(sumLim)
					if wantQuota > 0 && ratio > 1.0 {
						wantQuota = int64(math.Ceil(float64(wantQuota) / ratio))
					}
				}
				if *res.CFSQuota != wantQuota {
					fail("containers (req, lim, mem; -2 no list, -1 absent) %+v, cfs quota enabled %v, ratio %v: pod cfs quota %d, want %d (summed limits %d)", cs, enabled, ratio, *res.CFSQuota, wantQuota, sumLim)
				}
				if *res.MemoryLimit != sumMem {
					fail("containers (req, lim, mem; -2 no list, -1 absent) %+v: pod memory limit %d, want %d", cs, *res.MemoryLimit, sumMem)
				}
			}
		}
	}
	rec = func(n, k, from int) {
		if k == n {
			run(n)
			return
		}
		for o := from; o < len(opts); o++ {
			idx[k] = o
			rec(n, k+1, o)
		}
	}
	for n := 0; n <= maxN; n++ {
		rec(n, 0, 0)
	}
	fmt.Printf("VERIF-BOUNDED cases=%d nontrivial=%d\n", cases, nontrivial)
}
