//verif:property C04
//verif:package pkg/scheduler/plugins/coscheduling/core
//verif:function NewGang
//verif:bound quick and thorough: gang names {"", "g", "ns/gang-a"} (the constructor has no other input)
//verif:stands-in-for C04: the contract of NewGang (fresh gang, four distinct empty member maps, strict mode, once-satisfied match policy, not initialised, from pod annotation) is trusted (assumed) in the proof because the body reads the package-level clock hook through a dynamic call; this run checks the real body against that contract

package core

import (
	"fmt"
	"reflect"
	"testing"

	"github.com/koordinator-sh/koordinator/apis/extension"
)

func TestVerifBounded(t *testing.T) {
	cases := 0
	for _, name := range []string{"", "g", "ns/gang-a"} {
		cases++
		g := NewGang(name)
		bad := ""
		switch {
		case g == nil:
			bad = "nil gang"
		case g.Name != name:
			bad = "wrong name"
		case g.Mode != extension.GangModeStrict:
			bad = fmt.Sprintf("default mode %q is not strict", g.Mode)
		case g.GangMatchPolicy != extension.GangMatchPolicyOnceSatisfied:
			bad = fmt.Sprintf("default match policy %q is not once-satisfied", g.GangMatchPolicy)
		case g.HasGangInit:
			bad = "a new gang claims to be initialised"
		case g.GangFrom != GangFromPodAnnotation:
			bad = fmt.Sprintf("GangFrom = %q", g.GangFrom)
		case g.Children == nil || g.PendingChildren == nil || g.WaitingForBindChildren == nil || g.BoundChildren == nil:
			bad = "a member map is nil"
		case len(g.Children)+len(g.PendingChildren)+len(g.WaitingForBindChildren)+len(g.BoundChildren) != 0:
			bad = "a member map is not empty"
		}
		if bad == "" {
			ptrs := map[uintptr]bool{}
			for _, m := range []interface{}{g.Children, g.PendingChildren, g.WaitingForBindChildren, g.BoundChildren} {
				ptrs[reflect.ValueOf(m).Pointer()] = true
			}
			if len(ptrs) != 4 {
				bad = "two member sets share one map"
			}
		}
		if bad == "" && NewGang(name) == g {
			bad = "the same gang object is handed out twice"
		}
		if bad != "" {
			fmt.Printf("VERIF-BOUNDED cases=%d nontrivial=%d\n", cases, cases)
			fmt.Printf("VERIF-BOUNDED-FAIL NewGang(%q): %s\n", name, bad)
			t.FailNow()
		}
	}
	fmt.Printf("VERIF-BOUNDED cases=%d nontrivial=%d\n", cases, cases)
}
