#!/usr/bin/env python3
"""Evaluate a seeded breaking change against our checks, in a scratch worktree (never in /repo).

usage: seedcheck.py <seed dir with patch.diff + *_test.go> <Cxx> [--skip-confirm]

1. confirms the change: demo test passes on HEAD, existing tests of the touched package pass with the change,
   demo test fails with the change;
2. runs ./check <Cxx> against the patched worktree (VERIF_REPO) with evidence/replay redirected to a scratch dir;
3. prints a one-line verdict and removes the worktree.
"""
import glob, json, os, re, shutil, subprocess, sys, tempfile

VERIF = os.path.dirname(os.path.dirname(os.path.abspath(__file__)))
ENV = dict(os.environ)
ENV["PATH"] = "/root/go/pkg/mod/golang.org/toolchain@v0.0.1-go1.25.0.linux-amd64/bin:" + ENV["PATH"]
ENV.update(GOFLAGS="-mod=mod", GOPROXY="off", GOSUMDB="off", GOTOOLCHAIN="local",
           CGO_CFLAGS=f"-I{VERIF}/stubs/pfm/include", CGO_LDFLAGS=f"-L{VERIF}/stubs/pfm")


def sh(cmd, cwd=None, env=None, timeout=1800):
    p = subprocess.run(cmd, shell=True, cwd=cwd, env=env or ENV, stdout=subprocess.PIPE, stderr=subprocess.STDOUT, text=True, timeout=timeout)
    return p.returncode, p.stdout


def main():
    seed, prop = sys.argv[1], sys.argv[2]
    skip = "--skip-confirm" in sys.argv
    patch = os.path.join(seed, "patch.diff")
    tests = glob.glob(os.path.join(seed, "*_test.go"))
    files = re.findall(r"^\+\+\+ b/(\S+)", open(patch).read(), re.M)
    pkgdir = os.path.dirname(files[0])
    # the demonstration may live in another package than the patched file: locate it by its package clause
    if tests:
        pkgname = re.search(r"^package (\w+)", open(tests[0]).read(), re.M).group(1)
        cands = [os.path.dirname(f) for f in files]
        try:
            meta = json.load(open(os.path.join(seed, "meta.json")))
            for f in meta.get("files", []) + meta.get("test_files", []):
                if isinstance(f, str):
                    cands.append(os.path.dirname(f) if f.endswith(".go") else f)
            for k in ("test_dir", "test_package"):
                if isinstance(meta.get(k), str):
                    cands.insert(0, meta[k].lstrip("./"))
            if isinstance(meta.get("test_file"), str):
                cands.insert(0, os.path.dirname(meta["test_file"]).lstrip("./"))
        except Exception:
            pass
        rc, o = sh(f"grep -rl --include=*.go '^package {pkgname}$' pkg apis cmd 2>/dev/null | xargs -n1 dirname | sort -u", cwd="/repo")
        alldirs = o.split()
        def declares(d):
            return d in alldirs
        chosen = [d for d in cands if declares(d)]
        if chosen:
            pkgdir = chosen[0]
        else:
            near = [d for d in alldirs if os.path.basename(d) == pkgname]
            if near:
                # the package of that name closest to the patched file
                near.sort(key=lambda d: -len(os.path.commonprefix([d + "/", os.path.dirname(files[0]) + "/"])))
                pkgdir = near[0]
    wt = tempfile.mkdtemp(prefix="verif-seedrun.", dir="/var/tmp")
    os.rmdir(wt)
    out = tempfile.mkdtemp(prefix="verif-seedout.", dir="/var/tmp")
    res = {"seed": os.path.basename(seed.rstrip("/")), "property": prop}
    try:
        rc, o = sh(f"git -C /repo worktree add -q --detach {wt} HEAD")
        if rc != 0:
            print("worktree failed", o); return 2
        testnames = []
        for t in tests:
            testnames += re.findall(r"^func (Test\w+)", open(t).read(), re.M)
        run = "|".join(testnames) or "TestSeed"
        if not skip:
            for t in tests:
                shutil.copy(t, os.path.join(wt, pkgdir))
            rc, o = sh(f"go test -count=1 -vet=off -run '^({run})$' ./{pkgdir}", cwd=wt)
            res["demo_passes_unchanged"] = rc == 0
            for t in tests:
                os.remove(os.path.join(wt, pkgdir, os.path.basename(t)))
        rc, o = sh(f"git apply {patch}", cwd=wt)
        if rc != 0:
            res["error"] = "patch does not apply: " + o[-300:]
            print(json.dumps(res)); return 2
        if not skip:
            pk = sorted(set("./" + os.path.dirname(f) for f in files))
            rc, o = sh(f"go test -count=1 -vet=off {' '.join(pk)}", cwd=wt)
            res["existing_tests_pass_with_change"] = rc == 0
            if rc != 0:
                res["existing_tests_output"] = o[-600:]
            for t in tests:
                shutil.copy(t, os.path.join(wt, pkgdir))
            rc, o = sh(f"go test -count=1 -vet=off -run '^({run})$' ./{pkgdir}", cwd=wt)
            res["demo_fails_with_change"] = rc != 0
            for t in tests:
                os.remove(os.path.join(wt, pkgdir, os.path.basename(t)))
        env = dict(ENV); env["VERIF_REPO"] = wt
        rc, o = sh(f"./check {prop} -out {out}", cwd=VERIF, env=env)
        viol = re.findall(r"^VIOLATION property=\S+ replay=\S+ obligation=(\S+)", o, re.M)
        res["check_exit"] = rc
        res["violations"] = viol[:12]
        res["detected"] = rc == 1 and len(viol) > 0
        tail = [l for l in o.splitlines() if "quick:" in l]
        res["summary"] = tail[-1] if tail else o[-300:]
    finally:
        sh(f"git -C /repo worktree remove --force {wt}")
        shutil.rmtree(out, ignore_errors=True)
        shutil.rmtree(wt, ignore_errors=True)
    print(json.dumps(res, indent=1))
    return 0


if __name__ == "__main__":
    sys.exit(main())
