#!/usr/bin/env python3
"""seedregister.py <seed out dir> <Cxx>: re-run seedcheck with confirmation and store the seed under /verif/seeded/<id>/."""
import json, os, shutil, subprocess, sys, glob
V = os.path.dirname(os.path.dirname(os.path.abspath(__file__)))
seed, prop = sys.argv[1].rstrip("/"), sys.argv[2]
sid = os.path.basename(seed)
out = subprocess.run([sys.executable, os.path.join(V, "tools", "seedcheck.py"), seed, prop], stdout=subprocess.PIPE, text=True).stdout
res = json.loads(out[out.index("{"):])
dst = os.path.join(V, "seeded", sid)
os.makedirs(dst, exist_ok=True)
shutil.copy(os.path.join(seed, "patch.diff"), dst)
for t in glob.glob(os.path.join(seed, "*_test.go")):
    shutil.copy(t, os.path.join(dst, os.path.basename(t) + ".txt"))  # .txt: never picked up by a Go build
meta = {}
mp = os.path.join(seed, "meta.json")
if os.path.exists(mp):
    try:
        meta = json.load(open(mp))
    except Exception:
        meta = {"raw": open(mp).read()}
meta.update({
    "property": prop,
    "origin": "fresh sub-agent given only the property text and a scratch worktree without contract files",
    "confirmed_by_main_session": {k: res.get(k) for k in ("demo_passes_unchanged", "existing_tests_pass_with_change", "demo_fails_with_change")},
    "what_was_run": ["tools/seedcheck.py (scratch worktree of /repo HEAD under /var/tmp; go test of demo and of the touched packages; ./check %s with VERIF_REPO=<worktree>)" % prop],
    "detected_by_check": res.get("detected"),
    "failing_obligations": res.get("violations"),
    "check_summary": res.get("summary"),
})
json.dump(meta, open(os.path.join(dst, "meta.json"), "w"), indent=1)
print(sid, "confirmed" if all(meta["confirmed_by_main_session"].values()) else "UNCONFIRMED", "DETECTED" if res.get("detected") else "missed", (res.get("violations") or [])[:3])
