#!/usr/bin/env python3
"""Prints the per-property status table (markdown) from evidence/*.json, MANIFEST.json and KNOWN_FINDINGS.txt."""
import glob, json, os, re, sys

V = os.path.dirname(os.path.dirname(os.path.abspath(__file__)))
man = json.load(open(os.path.join(V, "MANIFEST.json")))
claimed = {c["property_id"] for c in man["checks"]}
na = {c["property_id"]: c["reason"] for c in man.get("not_applicable", [])}
known = {}
for ln in open(os.path.join(V, "KNOWN_FINDINGS.txt")):
    m = re.match(r"finding: property=(\S+) obligation=(\S+)", ln)
    if m:
        known.setdefault(m.group(1), []).append(m.group(2).split("/", 1)[1])
titles = {}
for ln in open(os.path.join(V, "properties.jsonl")):
    p = json.loads(ln)
    titles[p["id"]] = p["title"]
rows = ["| id | claimed | functions under contract | obligations (discharged/generated) | cover queries | trusted contracts | bounded stand-ins (not proof): cases | known findings | quick solve time |",
        "|---|---|---|---|---|---|---|---|---|"]
for pid in sorted(titles):
    f = os.path.join(V, "evidence", pid + ".json")
    if pid not in claimed or not os.path.exists(f):
        rows.append(f"| {pid} | no | – | – | – | – | – | – | – |")
        continue
    e = json.load(open(f))
    c = e["coverage"]
    fns = [x for x in c.get("functions_under_contract", []) if not x.startswith("lemma:")]
    lem = [x for x in c.get("functions_under_contract", []) if x.startswith("lemma:")]
    trusted = [a for a in e.get("assumptions", []) if a.startswith("trusted (unverified)")]
    bnd = c.get("bounded") or []
    btxt = ", ".join("%s: %s" % (b["name"], "{:,}".format(b["cases"])) for b in bnd) or "–"
    rows.append("| %s | yes | %d%s | %s/%s | %s | %d | %s | %s | %.0f s |" % (
        pid, len(fns), (" + %d lemmas" % len(lem)) if lem else "", c.get("discharged"), c.get("obligations"),
        c.get("cover_queries_sat"), len(trusted), btxt, ", ".join("`%s`" % k for k in known.get(pid, [])) or "–", c.get("solve_wall_s", 0)))
print("\n".join(rows))
