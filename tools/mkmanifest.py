#!/usr/bin/env python3
"""Regenerates /verif/MANIFEST.json from tools/claims.json (one entry per property: claimed text or not_applicable reason)."""
import json, os, sys
V = os.path.dirname(os.path.dirname(os.path.abspath(__file__)))
claims = json.load(open(os.path.join(V, "tools", "claims.json")))
baseline = json.load(open("/root/.vp/BASELINE.json"))["cmd"] if os.path.exists("/root/.vp/BASELINE.json") else claims.get("_baseline_cmd", "")
props = [json.loads(l) for l in open(os.path.join(V, "properties.jsonl"))]
checks, na = [], []
for p in props:
    pid = p["id"]
    c = claims.get(pid, {})
    if c.get("claimed"):
        checks.append({
            "property_id": pid,
            "quick_cmd": f"./check {pid} --tier quick",
            "thorough_cmd": f"./check {pid} --tier thorough",
            "evidence_file": f"evidence/{pid}.json",
            "replay_cmd_template": "./check replay {path}",
            "engine": "govc",
            "level_claimed": {"category": "proof", "text": c["text"], "design_ref": c.get("design_ref", "DESIGN.md §4 " + pid)},
            "level_note": c["note"],
            "technique": c.get("technique", "contract-based deductive verification: //@ contracts on the real functions, weakest-precondition VCs generated from go/ssa of /repo's working tree on every run, discharged by z3/cvc5"),
        })
    else:
        na.append({"property_id": pid, "reason": c.get("reason", "check not built yet; no obligation is claimed")})
import subprocess
try:
    hooks = subprocess.run(["git", "-C", "/repo", "log", "--reverse", "--format=%H", "--grep=^verif:"], stdout=subprocess.PIPE, text=True, check=True).stdout.split()
    claims["_hooks"] = hooks
    json.dump(claims, open(os.path.join(V, "tools", "claims.json"), "w"), indent=1)
except Exception:
    hooks = claims["_hooks"]
m = {
    "version": 1,
    "setup_cmd": "./check build && ./tools/warm.sh",
    "hooks": {"guard": "verif", "enable": "go build -tags verif — the only guarded sources are comment-only contract files zz_verif_contracts.go (//@ lines) next to the code they specify",
              "baseline_off_cmd": baseline, "source_commits": hooks, "add_only": True},
    "engines": [{"name": "govc", "path": "engine", "serves_properties": [c["property_id"] for c in checks],
                 "kind_free_text": "self-written deductive verifier for Go: contract parser, symbolic executor over naive-form go/ssa producing one SMT-LIB query per obligation, solver race z3 5.1 / z3 4.8 / cvc5"}],
    "checks": checks,
    "notes": claims.get("_notes", ""),
    "not_applicable": na,
}
json.dump(m, open(os.path.join(V, "MANIFEST.json"), "w"), indent=1)
print("claimed:", [c["property_id"] for c in checks])
