#!/bin/bash
# Warms the Go build cache / export data for every package under contract (first load of the k8s cone is slow).
VERIF="$(cd "$(dirname "$0")/.." && pwd)"
export PATH=/root/go/pkg/mod/golang.org/toolchain@v0.0.1-go1.25.0.linux-amd64/bin:$PATH
export GOFLAGS=-mod=mod GOPROXY=off GOSUMDB=off GOTOOLCHAIN=local
export CGO_CFLAGS="-I$VERIF/stubs/pfm/include" CGO_LDFLAGS="-L$VERIF/stubs/pfm"
REPO="${VERIF_REPO:-/repo}"
cd "$REPO" || exit 0
dirs=$(find . -name zz_verif_contracts.go -not -path './.git/*' | xargs -r -n1 dirname | sort -u)
[ -z "$dirs" ] && exit 0
go build -tags verif $dirs >/dev/null 2>&1 || true
# test binaries of the packages that carry a bounded stand-in (compiled only, nothing is run)
bdirs=$(grep -h '^//verif:package ' "$VERIF"/bounded/*_test.go 2>/dev/null | awk '{print "./"$2}' | sort -u)
[ -n "$bdirs" ] && go test -vet=off -count=1 -run '^$' $bdirs >/dev/null 2>&1 || true
exit 0
