#!/usr/bin/env python3
"""Re-evaluates every stored seeded change (seeded/<id>/patch.diff) against the current checks and updates
detected_by_check / failing_obligations / check_summary in its meta.json. Changes are applied in scratch worktrees of
/repo HEAD (tools/seedcheck.py --skip-confirm), never in /repo.

usage: tools/seedreeval.py [-j N] [id-substring ...]
"""
import concurrent.futures, glob, json, os, subprocess, sys

V = os.path.dirname(os.path.dirname(os.path.abspath(__file__)))


def one(d):
    meta_p = os.path.join(d, "meta.json")
    meta = json.load(open(meta_p))
    prop = meta["property"]
    out = subprocess.run([sys.executable, os.path.join(V, "tools", "seedcheck.py"), d, prop, "--skip-confirm"],
                         stdout=subprocess.PIPE, stderr=subprocess.DEVNULL, text=True).stdout
    res = json.loads(out[out.index("{"):])
    if "detected" not in res:
        return os.path.basename(d), prop, "error", res.get("error", "")[:200]
    meta["detected_by_check"] = res["detected"]
    meta["failing_obligations"] = res.get("violations")
    meta["check_summary"] = res.get("summary")
    json.dump(meta, open(meta_p, "w"), indent=1)
    return os.path.basename(d), prop, "DETECTED" if res["detected"] else "missed", ", ".join(v.split("/", 1)[1] for v in (res.get("violations") or [])[:2])


def main():
    args = sys.argv[1:]
    jobs = 2
    if args[:1] == ["-j"]:
        jobs = int(args[1])
        args = args[2:]
    dirs = [d for d in sorted(glob.glob(os.path.join(V, "seeded", "*"))) if os.path.exists(os.path.join(d, "meta.json"))
            and (not args or any(a in os.path.basename(d) for a in args))]
    with concurrent.futures.ThreadPoolExecutor(max_workers=jobs) as ex:
        for sid, prop, verdict, detail in ex.map(one, dirs):
            print(f"{sid:6s} {prop} {verdict:8s} {detail}", flush=True)


if __name__ == "__main__":
    main()
