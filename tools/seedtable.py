#!/usr/bin/env python3
"""Prints the markdown table of seeded changes (seeded/*/meta.json) for DESIGN.md §6."""
import glob, json, os

V = os.path.dirname(os.path.dirname(os.path.abspath(__file__)))
NOTES = {}
np = os.path.join(V, "seeded", "NOTES.json")
if os.path.exists(np):
    NOTES = json.load(open(np))
print("| seed | changed function | what the change does | check | caught by |")
print("|---|---|---|---|---|")
for d in sorted(glob.glob(os.path.join(V, "seeded", "*"))):
    mp = os.path.join(d, "meta.json")
    if not os.path.exists(mp):
        continue
    m = json.load(open(mp))
    sid = os.path.basename(d)
    fns = ", ".join("`%s`" % f for f in (m.get("functions") or [])[:2])
    what = NOTES.get(sid, {}).get("what") or (m.get("what_it_breaks") or "").split(". ")[0][:160]
    if m.get("detected_by_check"):
        fo = ", ".join("`%s`" % x.split("/", 1)[1] for x in (m.get("failing_obligations") or [])[:2])
        verdict = "caught" + (" (after strengthening: %s)" % NOTES[sid]["after"] if NOTES.get(sid, {}).get("after") else "")
        if NOTES.get(sid, {}).get("note"):
            verdict += " — " + NOTES[sid]["note"]
    else:
        fo = NOTES.get(sid, {}).get("why_missed", "–")
        verdict = "**missed**"
    print("| %s | %s | %s | %s | %s |" % (sid, fns, what.replace("|", "/"), verdict, fo))
