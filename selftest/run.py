#!/usr/bin/env python3
"""Must-fail corpus for the checks: every change listed here breaks a property, so the property's check must exit 1
with a VIOLATION line when it runs against a tree carrying the change.

Corpus = selftest/mutants/<Cxx>_*.diff (reverts of the defect repairs, hand-written breakages)
       + seeded/<id>/patch.diff whose meta.json says detected_by_check (changes produced by independent sub-agents).

Each change is applied in a scratch worktree of /repo HEAD under /var/tmp (never in /repo), the check runs with
VERIF_REPO pointing there and its evidence/replay output redirected to a scratch directory; the worktree is removed.

usage: selftest/run.py [-j N] [name-substring ...]        exit 0 = every listed change was detected
"""
import concurrent.futures, glob, json, os, re, shutil, subprocess, sys, tempfile

VERIF = os.path.dirname(os.path.dirname(os.path.abspath(__file__)))


def sh(cmd, cwd=None, env=None, timeout=3600):
    p = subprocess.run(cmd, shell=True, cwd=cwd, env=env, stdout=subprocess.PIPE, stderr=subprocess.STDOUT, text=True, timeout=timeout)
    return p.returncode, p.stdout


def corpus():
    out = []
    for f in sorted(glob.glob(os.path.join(VERIF, "selftest", "mutants", "*.diff"))):
        out.append((os.path.basename(f), os.path.basename(f).split("_")[0], f))
    for d in sorted(glob.glob(os.path.join(VERIF, "seeded", "*"))):
        try:
            meta = json.load(open(os.path.join(d, "meta.json")))
        except Exception:
            continue
        if meta.get("detected_by_check"):
            out.append(("seeded/" + os.path.basename(d), meta["property"], os.path.join(d, "patch.diff")))
    return out


def run_one(item):
    name, prop, patch = item
    wt = tempfile.mkdtemp(prefix="verif-selftest.", dir="/var/tmp")
    os.rmdir(wt)
    out = tempfile.mkdtemp(prefix="verif-selftest-out.", dir="/var/tmp")
    try:
        rc, o = sh(f"git -C /repo worktree add -q --detach {wt} HEAD")
        if rc != 0:
            return name, prop, "error", "worktree: " + o[-200:]
        # *.reverse.diff is the repair commit itself (git show): applied in reverse it re-introduces the defect
        rev = "-R " if patch.endswith(".reverse.diff") else ""
        rc, o = sh(f"git apply {rev}{patch}", cwd=wt)
        if rc != 0:
            return name, prop, "error", "patch does not apply: " + o[-200:]
        env = dict(os.environ)
        env["VERIF_REPO"] = wt
        if os.path.exists(os.path.join(VERIF, "bin", "govc")):
            env.setdefault("GOVC_BIN", os.path.join(VERIF, "bin", "govc"))
        rc, o = sh(f"./check {prop} -out {out}", cwd=VERIF, env=env)
        viol = re.findall(r"^VIOLATION property=\S+ replay=\S+ obligation=(\S+)", o, re.M)
        if rc == 1 and viol:
            return name, prop, "detected", ", ".join(v.split("/", 1)[1] for v in viol[:3])
        tail = [l for l in o.splitlines() if "quick:" in l]
        return name, prop, "MISSED", (tail[-1] if tail else o[-200:])
    finally:
        sh(f"git -C /repo worktree remove --force {wt}")
        shutil.rmtree(wt, ignore_errors=True)
        shutil.rmtree(out, ignore_errors=True)


def main():
    args = sys.argv[1:]
    jobs = 2
    if args[:1] == ["-j"]:
        jobs = int(args[1])
        args = args[2:]
    items = [it for it in corpus() if not args or any(a in it[0] for a in args)]
    sh("./check build", cwd=VERIF)
    bad = 0
    with concurrent.futures.ThreadPoolExecutor(max_workers=jobs) as ex:
        for name, prop, verdict, detail in ex.map(run_one, items):
            print(f"{verdict:9s} {prop} {name}: {detail}", flush=True)
            if verdict != "detected":
                bad += 1
    print(f"selftest: {len(items) - bad}/{len(items)} property-breaking changes detected")
    return 1 if bad else 0


if __name__ == "__main__":
    sys.exit(main())
