#include <perfmon/pfmlib.h>
pfm_err_t pfm_initialize(void) { return PFM_SUCCESS; }
void pfm_terminate(void) {}
pfm_err_t pfm_get_os_event_encoding(const char *str, int dfl_plm, pfm_os_t os, void *args) { (void)str; (void)dfl_plm; (void)os; (void)args; return -1; }
