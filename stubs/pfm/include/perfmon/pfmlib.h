/* Minimal stand-in for libpfm4's header: only what pkg/koordlet/util/perf_group references.
   Lets the koordlet packages type-check, build and run their tests on a host without libpfm. */
#ifndef VERIF_PFMLIB_STUB_H
#define VERIF_PFMLIB_STUB_H
#define PFM_SUCCESS 0
#define PFM_PLM0 0x01
#define PFM_PLM3 0x08
typedef int pfm_err_t;
typedef enum { PFM_OS_NONE = 0, PFM_OS_PERF_EVENT, PFM_OS_PERF_EVENT_EXT, PFM_OS_MAX } pfm_os_t;
pfm_err_t pfm_initialize(void);
void pfm_terminate(void);
pfm_err_t pfm_get_os_event_encoding(const char *str, int dfl_plm, pfm_os_t os, void *args);
#endif
