package main

// Calls: dispatch, contracts at call sites, inlining, havoc.

import (
	"fmt"
	"go/token"
	"go/types"
	"sort"
	"strings"

	"golang.org/x/tools/go/ssa"
)

func funcKey(fn *ssa.Function) string {
	if o := fn.Origin(); o != nil {
		fn = o
	}
	return fn.String()
}

func resultType(sig *types.Signature) types.Type {
	switch sig.Results().Len() {
	case 0:
		return types.NewTuple()
	case 1:
		return sig.Results().At(0).Type()
	}
	return sig.Results()
}

func tupleVal(t types.Type, vs ...Val) Val {
	out := Val{T: t}
	for _, v := range vs {
		out.L = append(out.L, v.L...)
	}
	if len(vs) > 0 {
		out.Clo = vs[0].Clo
	}
	return out
}

func (ex *Exec) freshResult(st *State, name string, t types.Type) Val {
	// an arbitrary result may be (or reach) objects allocated by the call
	ex.expose(st, exposureOf(t))
	v := FreshVal("r_"+name, t)
	ex.typeFacts(st, v)
	return v
}

func shortName(key string) string {
	if i := strings.LastIndex(key, "/"); i >= 0 {
		key = key[i+1:]
	}
	return strings.NewReplacer("(", "", ")", "", "*", "").Replace(key)
}

func (ex *Exec) doDeferredCall(fr *Frame, st *State, d deferred) {
	ex.callWith(fr, st, d.call, d.fnv, d.args, d.pos)
}

func (ex *Exec) doCall(fr *Frame, st *State, cc *ssa.CallCommon, instr ssa.Value, pos token.Pos) Val {
	var args []Val
	for _, a := range cc.Args {
		args = append(args, ex.val(fr, st, a))
	}
	var fnv Val
	if _, isB := cc.Value.(*ssa.Builtin); !isB {
		fnv = ex.val(fr, st, cc.Value)
	}
	return ex.callWith(fr, st, cc, fnv, args, pos)
}

func (ex *Exec) callWith(fr *Frame, st *State, cc *ssa.CallCommon, fnv Val, args []Val, pos token.Pos) Val {
	sig := cc.Signature()
	rt := resultType(sig)
	if b, ok := cc.Value.(*ssa.Builtin); ok {
		return ex.doBuiltin(fr, st, b, cc, args, rt, pos)
	}
	if cc.IsInvoke() {
		recvT := cc.Value.Type()
		key := "(" + types.TypeString(types.Unalias(recvT), nil) + ")." + cc.Method.Name()
		all := append([]Val{fnv}, args...)
		return ex.dispatch(fr, st, key, nil, nil, all, sig, rt, pos, true)
	}
	if fnv.Clo != nil {
		fn := fnv.Clo.Fn.(*ssa.Function)
		return ex.dispatch(fr, st, funcKey(fn), fn, fnv.Clo.Bindings, args, sig, rt, pos, false)
	}
	// dynamic function value: name it after the parameter / variable / field it is read from, so that
	// call counters and call-site assertions can refer to it
	name := ""
	switch v := cc.Value.(type) {
	case *ssa.Parameter:
		name = "$param." + v.Name()
	case *ssa.UnOp:
		switch a := v.X.(type) {
		case *ssa.Global:
			// package-level function variable (test seam such as `var timeNowFn = time.Now`): addressed by its
			// qualified name, so that lib specs can declare it pure / ignore or give it an extern contract
			if a.Pkg != nil && a.Pkg.Pkg != nil {
				name = a.Pkg.Pkg.Path() + "." + a.Name()
			}
		case *ssa.Alloc:
			name = "$param." + a.Comment
		case *ssa.FieldAddr:
			if st, ok := types.Unalias(derefType(a.X.Type())).Underlying().(*types.Struct); ok {
				name = "$field." + st.Field(a.Field).Name()
			}
		case *ssa.FreeVar:
			name = "$param." + a.Name()
		}
	case *ssa.FreeVar:
		name = "$param." + v.Name()
	}
	if name != "" {
		return ex.dispatch(fr, st, name, nil, nil, args, sig, rt, pos, false)
	}
	ex.note("havoc", "dynamic call of a function value at "+ex.posString(pos))
	ex.havocAll(st)
	ex.havocEscapedLocals(st, args)
	return ex.freshResult(st, "dyn", rt)
}

func (ex *Exec) dispatch(fr *Frame, st *State, key string, fn *ssa.Function, free []Val, args []Val, sig *types.Signature, rt types.Type, pos token.Pos, invoke bool) Val {
	ex.callOrd[key]++
	ord := ex.callOrd[key]
	if fr.depth == 0 || true {
		for pat, c := range ex.callCells {
			if calleeMatches(key, pat) {
				cur, ok := st.cells[c]
				if !ok {
					cur = Val{T: c.T, L: []*Term{Int(0)}}
				}
				st.cells[c] = Val{T: c.T, L: []*Term{Add(cur.S(), Int(1))}}
				if ex.wlog != nil {
					ex.wlog.cells[c] = true
				}
			}
		}
	}
	// call-site assertions of the function under verification (top frame only)
	if fr.con != nil && ex.dry == 0 {
		for _, ca := range fr.con.Asserts {
			if !ca.After && calleeMatches(key, ca.Callee) && (ca.Ord == 0 || ca.Ord == ord) {
				env := ex.callSiteEnv(fr, st, key, fn, args, sig)
				g := ex.evalBool(env, ca.Clause)
				nm := fmt.Sprintf("assert:%s", clauseName(ca.Clause, 0))
				if ca.Clause.Label == "" {
					nm = fmt.Sprintf("assert:%s", shortName(ca.Callee))
				}
				o := ex.oblige(st, "assert", nm+"@call", g, pos)
				o.Props = ca.Clause.Props
				ex.assume(st, g)
			}
		}
	}
	var res Val
	switch {
	case ex.theoryCall(fr, st, key, fn, args, sig, rt, pos, &res):
	case ex.eng.contracts[key] != nil && !(fn != nil && len(ex.stack) > 0 && false):
		res = ex.useContract(fr, st, ex.eng.contracts[key], key, fn, args, sig, rt, pos, ord)
	case strings.HasPrefix(key, "$") && ex.isObserver(key):
		ex.note("observer", key)
		res = ex.freshResult(st, shortName(key), rt)
	case strings.HasPrefix(key, "$"):
		ex.note("havoc", "dynamic call of function value "+key+" at "+ex.posString(pos))
		ex.havocAll(st)
		ex.havocEscapedLocals(st, args)
		res = ex.freshResult(st, shortName(key), rt)
	case ex.eng.isObserverDecl(key):
		// getter of an environment object: what it returns existed before the call
		ex.note("getter", key)
		res = FreshVal("r_"+shortName(key), rt)
		ex.typeFacts(st, res)
	case ex.eng.isIgnored(key):
		// no modelled effect; the result is arbitrary. References it holds directly may be new objects, but an interface
		// value handed out by an ignored function (loggers, sync.Map contents, recorders) is assumed to hold existing ones
		ex.note("ignore", key)
		ex.bumpKeys(st, exposureOf(rt).keys)
		res = FreshVal("r_"+shortName(key), rt)
		ex.typeFacts(st, res)
	case ex.eng.isPure(key):
		ex.note("pure", key)
		res = ex.pureCall(st, key, args, rt)
	case fn != nil && len(fn.Blocks) > 0 && ex.canInline(fn, fr):
		ex.note("inline", key)
		vals, out, _ := ex.execFunc(fn, args, free, st.clone(), fr.depth+1, nil)
		if out == nil {
			st.guard = False
			return ZeroVal(rt)
		}
		*st = *out
		res = tupleVal(rt, vals...)
		if len(vals) == 1 {
			res.Loc = vals[0].Loc
			res.Clo = vals[0].Clo
		}
	default:
		var ws *wset
		if fn != nil && len(fn.Blocks) > 0 {
			ws = ex.eng.writeSet(fn)
		}
		if ws != nil && !ws.top {
			ex.note("summary", key)
			ex.impure++
			names := sortedKeys(ws.heaps)
			ex.expose(st, exposeHeaps(names))
			for _, n := range names {
				srt, ok := ex.heapSrt[n]
				if !ok {
					continue // never read or written by the function under verification
				}
				st.heap[n] = Fresh(n, srt)
				ex.heapFacts(n, st.heap[n], st.wm)
				if ex.wlog != nil {
					ex.wlog.logHeap(n, nil)
				}
			}
			st.hv = newHV(false, ws.heaps, st.wm, st.hv)
			if ex.wlog != nil {
				if ex.wlog.hvSet == nil {
					ex.wlog.hvSet = map[string]bool{}
				}
				for n := range ws.heaps {
					ex.wlog.hvSet[n] = true
				}
			}
		} else {
			if ws != nil {
				ex.note("havoc", key+" [write-set unknown: "+ws.why+"]")
			} else {
				ex.note("havoc", key)
			}
			ex.havocAll(st)
			ws = nil
		}
		ex.havocEscapedLocals(st, args, ws)
		res = ex.freshResult(st, shortName(key), rt)
	}
	for pat, c := range ex.resCells {
		if calleeMatches(key, pat) {
			if c.T == nil {
				c.T = rt
			}
			if len(Layout(c.T)) == len(res.L) {
				st.cells[c] = Val{T: c.T, L: res.L}
				if ex.wlog != nil {
					ex.wlog.cells[c] = true
				}
			}
		}
	}
	if fr.con != nil && ex.dry == 0 {
		for _, ca := range fr.con.Asserts {
			if ca.After && calleeMatches(key, ca.Callee) && (ca.Ord == 0 || ca.Ord == ord) {
				env := ex.callSiteEnv(fr, st, key, fn, args, sig)
				env.setResults(rt, res)
				env.nameResults(sig)
				g := ex.evalBool(env, ca.Clause)
				o := ex.oblige(st, "assert", fmt.Sprintf("assert:%s@after", clauseName(ca.Clause, 0)), g, pos)
				o.Props = ca.Clause.Props
				ex.assume(st, g)
			}
		}
	}
	return res
}

func calleeMatches(key, pat string) bool {
	if key == pat {
		return true
	}
	return strings.HasSuffix(key, "."+pat) || strings.HasSuffix(key, ")."+pat) || strings.HasSuffix(key, "/"+pat) || strings.HasSuffix(shortName(key), pat)
}

func (ex *Exec) canInline(fn *ssa.Function, fr *Frame) bool {
	if fr.depth >= 8 {
		return false
	}
	for _, f := range ex.stack {
		if f == fn {
			return false
		}
	}
	n := 0
	for _, b := range fn.Blocks {
		n += len(b.Instrs)
	}
	forced := false
	if ex.con != nil {
		for _, pat := range strings.Fields(ex.con.Opts["inline"]) {
			if calleeMatches(funcKey(fn), pat) {
				forced = true
			}
		}
	}
	if fn.Synthetic != "" || fn.Parent() != nil {
		forced = forced || n <= ex.eng.inlineLimit // wrappers and closures of the function itself
	}
	if !forced && n > ex.eng.inlineSmall {
		return false
	}
	if n > ex.eng.inlineLimit || ex.inlinedInstr+n > 3000 {
		return false
	}
	ex.inlinedInstr += n
	return true
}

func (ex *Exec) pureCall(st *State, key string, args []Val, rt types.Type) Val {
	var ts []*Term
	for _, a := range args {
		ts = append(ts, a.L...)
	}
	ls := Layout(rt)
	out := Val{T: rt, L: make([]*Term, len(ls))}
	for i, l := range ls {
		out.L[i] = UF("pure_"+sanitize(key)+"_"+sanitize(l.Path), l.Sort, ts...)
	}
	// a pure observer returns something that exists when it is called: references are allocated objects
	ex.typeFacts(st, out)
	return out
}

// typeFactsPure: like typeFacts but without the watermark bound (results of uninterpreted functions
// are the same term at every call site; bounding them by a particular watermark is still sound for
// pre-existing objects but we keep only sign facts).
func (ex *Exec) typeFactsPure(st *State, v Val) {
	ls := Layout(v.T)
	for i, l := range ls {
		t := v.L[i]
		switch {
		case strings.HasSuffix(l.Path, "#len") || strings.HasSuffix(l.Path, "#off") || strings.HasSuffix(l.Path, "#arr"):
			ex.assume(st, Ge(t, Int(0)))
			if strings.HasSuffix(l.Path, "#arr") && i+2 < len(v.L) {
				ex.assume(st, Implies(Eq(t, Int(0)), Eq(v.L[i+2], Int(0))))
			}
		case l.T != nil:
			switch u := types.Unalias(l.T).Underlying().(type) {
			case *types.Basic:
				if u.Info()&types.IsUnsigned != 0 {
					ex.assume(st, Ge(t, Int(0)))
				}
			case *types.Pointer, *types.Map:
				ex.assume(st, Ge(t, Int(0)))
			}
		}
	}
}

// havocEscapedLocals forgets locals and interior locations (&x.f, &s[i]) whose address was handed to a callee
// that is not executed: the callee's type-based write set does not see through such pointers.
func (ex *Exec) havocEscapedLocals(st *State, args []Val, ws ...*wset) {
	var w *wset
	if len(ws) > 0 && ws[0] != nil && !ws[0].top {
		w = ws[0]
	}
	// closures handed to the callee may run there: the variables they capture (by reference) can change as well
	work := append([]Val{}, args...)
	seenClo := map[*Closure]bool{}
	for i := 0; i < len(work); i++ {
		if c := work[i].Clo; c != nil && !seenClo[c] {
			seenClo[c] = true
			for _, b := range c.Bindings {
				bb := b
				bb.Clo = nil
				work = append(work, bb)
				if b.Clo != nil {
					work = append(work, Val{Clo: b.Clo})
				}
				if b.Loc != nil && b.Loc.Kind == locCell {
					// a captured closure variable: look through it
					if cv, ok := st.cells[b.Loc.Cell]; ok && cv.Clo != nil {
						work = append(work, Val{Clo: cv.Clo})
					}
				}
			}
		}
	}
	for ai, a := range work {
		loc := a.Loc
		if loc == nil && len(a.L) == 1 && ex.ifaceVals != nil {
			if bv, ok := ex.ifaceVals[a.L[0]]; ok {
				loc = bv.Loc
			}
		}
		if loc == nil {
			continue
		}
		captured := ai >= len(args)
		if loc.Kind == locCell || loc.Prefix != "" || loc.Kind == locElem {
			if _, isG := loc.Obj.(globalObj); isG {
				continue
			}
			ex.expose(st, exposureOf(loc.T))
			nv := FreshVal("esc", loc.T)
			ex.typeFacts(st, nv)
			if w != nil && !isPseudoType(loc.T) && !captured {
				// only the leaves the callee's write set names (through a pointer of the pointee type) are forgotten
				cur := ex.load(st, loc)
				ls := Layout(loc.T)
				any := false
				for i, l := range ls {
					if w.heaps[fieldHeapName(loc.T, l.Path)] {
						any = true
					} else {
						nv.L[i] = cur.L[i]
					}
				}
				if !any {
					continue
				}
			}
			ex.store(st, loc, nv)
		}
	}
}

func isPseudoType(t types.Type) bool {
	switch t.(type) {
	case seenType, globalObj:
		return true
	}
	return false
}

// havocAll forgets every heap.
func (ex *Exec) havocAll(st *State) {
	ex.impure++
	names := make([]string, 0, len(ex.heapSrt))
	for n := range ex.heapSrt {
		names = append(names, n)
	}
	sort.Strings(names)
	ex.bumpWM(st)
	for _, n := range names {
		st.heap[n] = Fresh(n, ex.heapSrt[n])
		ex.heapFacts(n, st.heap[n], st.wm)
		if ex.wlog != nil {
			ex.wlog.logHeap(n, nil)
		}
	}
	st.hv = newHV(true, nil, st.wm, st.hv)
	if ex.wlog != nil {
		ex.wlog.hvAll = true
	}
	ex.havocEpoch++
}

// ---- contracts at call sites ----

func (ex *Exec) bindParams(env *SpecEnv, fn *ssa.Function, sig *types.Signature, args []Val, invoke bool) {
	// names from the signature (receiver first); a call through a function value carries the unnamed function type, the
	// parameter names are those of the function it resolves to
	if fn != nil && fn.Signature != nil && sig.Recv() == nil && fn.Signature.Recv() == nil && fn.Signature.Params().Len() == sig.Params().Len() {
		sig = fn.Signature
	}
	i := 0
	if recv := sig.Recv(); recv != nil {
		name := recv.Name()
		if name == "" || name == "_" {
			name = "recv"
		}
		if i < len(args) {
			env.vars[name] = args[i]
			env.vars["recv"] = args[i]
		}
		i++
	} else if invoke {
		if i < len(args) {
			env.vars["recv"] = args[i]
		}
		i++
	}
	ps := sig.Params()
	for j := 0; j < ps.Len(); j++ {
		name := ps.At(j).Name()
		if i < len(args) {
			if name != "" && name != "_" {
				env.vars[name] = args[i]
			}
			env.vars[fmt.Sprintf("arg%d", j)] = args[i]
		}
		i++
	}
	if fn != nil {
		for j, fv := range fn.FreeVars {
			_ = j
			_ = fv
		}
	}
}

func (env *SpecEnv) setResults(rt types.Type, res Val) {
	if tt, ok := rt.(*types.Tuple); ok {
		off := 0
		for i := 0; i < tt.Len(); i++ {
			n := len(Layout(tt.At(i).Type()))
			v := Val{T: tt.At(i).Type(), L: res.L[off : off+n]}
			off += n
			env.vars[fmt.Sprintf("result%d", i)] = v
			if nm := tt.At(i).Name(); nm != "" && nm != "_" {
				if _, exists := env.vars[nm]; !exists {
					env.vars[nm] = v
				}
			}
		}
		if tt.Len() == 1 {
			env.vars["result"] = env.vars["result0"]
		}
		return
	}
	env.vars["result"] = res
	env.vars["result0"] = res
}

// nameResults binds named results of a signature.
func (env *SpecEnv) nameResults(sig *types.Signature) {
	rs := sig.Results()
	if rs.Len() == 1 {
		if nm := rs.At(0).Name(); nm != "" && nm != "_" {
			if _, exists := env.vars[nm]; !exists {
				env.vars[nm] = env.vars["result"]
			}
		}
	}
}

func (ex *Exec) callSiteEnv(fr *Frame, st *State, key string, fn *ssa.Function, args []Val, sig *types.Signature) *SpecEnv {
	env := ex.newEnv(fr.con.PkgPath, st)
	// the verified function's own parameters and locals are visible, callee arguments as arg0..n / by name with prefix
	if fr.env0 != nil {
		for k, v := range fr.env0.vars {
			env.vars[k] = v // lets (entry values), captured variables, recv
		}
	}
	for k, v := range fr.params {
		env.vars[k] = v
	}
	env.frame = fr
	env.old = fr.env0
	env.wmPre = ex.entry.wm
	i := 0
	if sig.Recv() != nil {
		if i < len(args) {
			env.vars["$recv"] = args[i]
		}
		i++
	}
	ps := sig.Params()
	for j := 0; j < ps.Len(); j++ {
		if i < len(args) {
			env.vars[fmt.Sprintf("$arg%d", j)] = args[i]
		}
		i++
	}
	return env
}

func (ex *Exec) useContract(fr *Frame, st *State, con *Contract, key string, fn *ssa.Function, args []Val, sig *types.Signature, rt types.Type, pos token.Pos, ord int) Val {
	if con.Extern {
		ex.note("extern", key)
	} else {
		ex.note("contract", key)
	}
	pre := st.clone()
	envPre := ex.newEnv(con.PkgPath, pre)
	ex.bindParams(envPre, fn, sig, args, fn == nil)
	ex.bindLets(envPre, con)
	// preconditions
	for i, c := range con.Requires {
		g := ex.evalBool(envPre, c)
		if ex.dry == 0 {
			o := ex.oblige(st, "callpre", fmt.Sprintf("call:%s#%d/pre#%s", shortName(key), ord, clauseName(c, i)), g, pos)
			o.Props = nil
		}
		ex.assume(st, g)
	}
	// frame
	if con.ModInferred && fn != nil && len(fn.Blocks) > 0 && !ex.eng.writeSet(fn).top {
		ws := ex.eng.writeSet(fn)
		ex.expose(st, exposeHeaps(sortedKeys(ws.heaps)))
		for _, n := range sortedKeys(ws.heaps) {
			srt, ok := ex.heapSrt[n]
			if !ok {
				continue
			}
			st.heap[n] = Fresh(n, srt)
			ex.heapFacts(n, st.heap[n], st.wm)
			if ex.wlog != nil {
				ex.wlog.logHeap(n, nil)
			}
		}
		st.hv = newHV(false, ws.heaps, st.wm, st.hv)
		if ex.wlog != nil {
			if ex.wlog.hvSet == nil {
				ex.wlog.hvSet = map[string]bool{}
			}
			for n := range ws.heaps {
				ex.wlog.hvSet[n] = true
			}
		}
		ex.havocEscapedLocals(st, args, ws)
	} else if !con.HasMod {
		ex.havocAll(st)
		ex.havocEscapedLocals(st, args)
	} else {
		for _, m := range con.Modifies {
			ex.havocDesignator(envPre, st, m)
		}
		// a modifies clause cannot name the caller's locals: what closures passed to the callee capture may change
		var clos []Val
		for _, a := range args {
			if a.Clo != nil {
				clos = append(clos, Val{Clo: a.Clo})
			}
		}
		if len(clos) > 0 {
			ex.havocEscapedLocals(st, clos)
		}
	}
	res := ex.freshResult(st, shortName(key), rt)
	envPost := ex.newEnv(con.PkgPath, st)
	ex.bindParams(envPost, fn, sig, args, fn == nil)
	envPost.old = envPre
	envPost.setResults(rt, res)
	envPost.nameResults(sig)
	envPost.wmPre = pre.wm
	{
		// results the contract declares fresh unconditionally (top-level conjunct fresh(name)) are objects allocated by
		// the call: register them so that loop write discovery can tell them from objects that existed before
		var scan func(e *SExpr)
		scan = func(e *SExpr) {
			if e == nil {
				return
			}
			if e.Op == "binary" && e.Name == "&&" {
				for _, a := range e.Args {
					scan(a)
				}
				return
			}
			if e.Op == "call" && len(e.Args) == 2 && e.Args[0].Op == "id" && e.Args[0].Name == "fresh" && e.Args[1].Op == "id" {
				if v, ok := envPost.vars[e.Args[1].Name]; ok && len(v.L) > 0 && v.L[0].op != "int" {
					ex.markFresh(v.L[0])
				}
			}
		}
		for _, c := range con.Ensures {
			scan(c.E)
		}
	}
	ex.bindLets(envPost, con)
	for _, c := range con.Ensures {
		if ex.usesCallsDeep(con.PkgPath, c.E, map[*SpecFunc]bool{}) {
			continue // statements about the callee's own calls are not facts about the caller's counters
		}
		ex.assume(st, ex.evalBool(envPost, c))
	}
	return res
}

func (ex *Exec) bindLets(env *SpecEnv, con *Contract) {
	for _, l := range con.Lets {
		env.vars[l.Name] = ex.evalSpec(env, l.E)
	}
}

// havocDesignator forgets the locations named by a modifies designator (evaluated in envPre) in state st.
func (ex *Exec) havocDesignator(envPre *SpecEnv, st *State, d *SExpr) {
	if d.Op == "call" && d.Args[0].Op == "id" && d.Args[0].Name == "obj" {
		v := ex.evalSpec(envPre, d.Args[1])
		if v.Loc == nil && len(v.L) == 1 && ex.ifaceVals != nil {
			if bv, ok := ex.ifaceVals[v.L[0]]; ok && bv.Loc != nil {
				v = bv
			}
		}
		if v.Loc != nil && v.Loc.Kind == locCell {
			ex.expose(st, exposureOf(v.Loc.T))
			nv := FreshVal("c_"+v.Loc.Cell.Name, v.Loc.T)
			ex.typeFacts(st, nv)
			ex.store(st, v.Loc, nv)
			return
		}
	}
	hrs := ex.designatorHeaps(envPre, d)
	var hnames []string
	for _, hr := range hrs {
		hnames = append(hnames, hr.name)
	}
	// the callee may store objects it allocated into the locations it may write
	ex.expose(st, exposeHeaps(hnames))
	for _, hr := range hrs {
		srt, ok := ex.heapSrt[hr.name]
		if !ok {
			ex.heapGet(st, hr.name, hr.sort)
			srt = hr.sort
		}
		cur := ex.heapGet(st, hr.name, srt)
		if hr.idx == nil {
			nh := Fresh(hr.name, srt)
			ex.heapFacts(hr.name, nh, st.wm)
			ex.heapSet(st, hr.name, nh)
		} else if hr.sub != nil {
			// one element of a slice: the other elements of the backing array keep their values
			_, es := srt.splitArr()
			_, leaf := es.splitArr()
			el := Fresh(hr.name+"_el", leaf)
			ex.rowFacts(hr.name, el, st.wm)
			ex.heapSet(st, hr.name, Store(cur, hr.idx, Store(Select(cur, hr.idx), hr.sub, el)))
		} else {
			_, es := srt.splitArr()
			row := Fresh(hr.name+"_at", es)
			ex.rowFacts(hr.name, row, st.wm)
			ex.heapSet(st, hr.name, Store(cur, hr.idx, row))
		}
	}
}

type heapRef struct {
	name string
	sort Sort
	idx  *Term // nil = whole heap
	sub  *Term // element heaps: position inside the row (nil = the whole row, i.e. every element of the backing array)
}

// designatorHeaps resolves a modifies designator.
//
//	x.f.g          field (and everything below it) of object x
//	obj(x)         all fields of object x
//	all(T).f       field f of every object of struct type T
//	contents(m)    the entries of map m
//	allmaps(m)     the entries of every map of m's type
//	elems(s)       the elements of slice s
//	allelems(s)    the elements of every slice with s's element type
//	deref(p)       the value a pointer to a non-struct points to
func (ex *Exec) designatorHeaps(env *SpecEnv, d *SExpr) []heapRef {
	var out []heapRef
	switch d.Op {
	case "sel":
		// all(T).f...  or x.f...
		root, path := splitSel(d)
		if root.Op == "call" && root.Args[0].Op == "id" && root.Args[0].Name == "all" {
			t := ex.resolveType(env, root.Args[1].String())
			t, path = ex.normPath(t, path)
			for _, l := range leavesUnder(t, path) {
				out = append(out, heapRef{fieldHeapName(t, l.Path), ArrSort(SInt, l.Sort), nil, nil})
			}
			return out
		}
		// evaluate the place
		loc, ok := ex.evalPlace(env, d)
		if !ok {
			unsupported("modifies designator is not an addressable place: %s", d)
		}
		for _, l := range Layout(loc.T) {
			switch loc.Kind {
			case locField:
				out = append(out, heapRef{fieldHeapName(loc.Obj, loc.Prefix+l.Path), ArrSort(SInt, l.Sort), loc.Base, nil})
			case locElem:
				out = append(out, heapRef{elemHeapName(loc.Obj, loc.Prefix+l.Path), ArrSort(SInt, ArrSort(SInt, l.Sort)), loc.Base, nil})
			default:
				unsupported("modifies designator on a local: %s", d)
			}
		}
		return out
	case "call":
		if d.Args[0].Op == "id" {
			switch d.Args[0].Name {
			case "obj":
				v := ex.evalSpec(env, d.Args[1])
				if derefType(v.T) == nil && len(v.L) == 1 && ex.ifaceVals != nil {
					if bv, ok := ex.ifaceVals[v.L[0]]; ok {
						v = bv
					}
				}
				et := derefType(v.T)
				if et == nil {
					unsupported("obj(): not a pointer: %s", d)
				}
				if v.Loc != nil {
					for _, l := range Layout(v.Loc.T) {
						if v.Loc.Kind == locField {
							out = append(out, heapRef{fieldHeapName(v.Loc.Obj, v.Loc.Prefix+l.Path), ArrSort(SInt, l.Sort), v.Loc.Base, nil})
						}
					}
					return out
				}
				for _, l := range Layout(et) {
					out = append(out, heapRef{fieldHeapName(et, l.Path), ArrSort(SInt, l.Sort), v.S(), nil})
				}
				return out
			case "contents", "allmaps":
				v := ex.evalSpec(env, d.Args[1])
				mh := mapOf(v.T)
				var idx *Term
				if d.Args[0].Name == "contents" {
					idx = v.S()
				}
				out = append(out, heapRef{mh.domName(), mh.domSort(), idx, nil}, heapRef{mh.lenName(), ArrSort(SInt, SInt), idx, nil})
				for _, l := range mh.vals {
					out = append(out, heapRef{mh.valName(l), mh.valSort(l), idx, nil})
				}
				return out
			case "elems", "allelems":
				v := ex.evalSpec(env, d.Args[1])
				sl, ok := types.Unalias(v.T).Underlying().(*types.Slice)
				if !ok {
					unsupported("elems(): not a slice: %s", d)
				}
				var idx *Term
				if d.Args[0].Name == "elems" {
					idx = v.L[0]
				}
				for _, l := range Layout(sl.Elem()) {
					out = append(out, heapRef{elemHeapName(sl.Elem(), l.Path), ArrSort(SInt, ArrSort(SInt, l.Sort)), idx, nil})
				}
				return out
			case "allfields":
				t := ex.resolveType(env, d.Args[1].String())
				if p := derefType(t); p != nil {
					t = p
				}
				for _, l := range Layout(t) {
					out = append(out, heapRef{fieldHeapName(t, l.Path), ArrSort(SInt, l.Sort), nil, nil})
				}
				return out
			}
		}
	}
	unsupported("modifies designator not understood: %s", d)
	return nil
}

func splitSel(d *SExpr) (*SExpr, []string) {
	var path []string
	for d.Op == "sel" {
		path = append([]string{d.Name}, path...)
		d = d.Args[0]
	}
	return d, path
}

// normPath follows embedded-field promotion for a field path and returns the leaf prefix.
func (ex *Exec) normPath(t types.Type, path []string) (types.Type, []string) {
	if p := derefType(t); p != nil {
		t = p
	}
	var out []string
	cur := t
	for _, f := range path {
		obj, idx, _ := types.LookupFieldOrMethod(cur, true, nil, f)
		if obj == nil {
			// try with package
			if n, ok := types.Unalias(cur).(*types.Named); ok {
				obj, idx, _ = types.LookupFieldOrMethod(cur, true, n.Obj().Pkg(), f)
			}
		}
		if obj == nil {
			unsupported("no field %s in %v", f, cur)
		}
		for _, k := range idx {
			st := types.Unalias(cur).Underlying().(*types.Struct)
			fld := st.Field(k)
			out = append(out, fld.Name())
			cur = fld.Type()
		}
	}
	return t, out
}

func leavesUnder(t types.Type, path []string) []Leaf {
	prefix := ""
	for _, p := range path {
		prefix += "." + p
	}
	lo, hi := subRange(t, prefix)
	return Layout(t)[lo:hi]
}

// ---- builtins ----

func (ex *Exec) doBuiltin(fr *Frame, st *State, b *ssa.Builtin, cc *ssa.CallCommon, args []Val, rt types.Type, pos token.Pos) Val {
	switch b.Name() {
	case "len":
		a := args[0]
		switch u := types.Unalias(a.T).Underlying().(type) {
		case *types.Slice:
			return scalar(rt, a.L[2])
		case *types.Map:
			return scalar(rt, ex.lenOfMap(st, a.T, a.S()))
		case *types.Basic:
			return scalar(rt, ex.strLen(st, a.S()))
		case *types.Array:
			return scalar(rt, Int(u.Len()))
		case *types.Pointer:
			if at, ok := types.Unalias(u.Elem()).Underlying().(*types.Array); ok {
				return scalar(rt, Int(at.Len()))
			}
		}
	case "cap":
		a := args[0]
		if _, ok := types.Unalias(a.T).Underlying().(*types.Slice); ok {
			c := UF("cap", SInt, a.L[0], a.L[1], a.L[2])
			ex.assume(st, Ge(c, a.L[2]))
			return scalar(rt, c)
		}
	case "append":
		return ex.doAppend(st, args[0], args[1], rt)
	case "delete":
		m, k := args[0], args[1]
		mm := types.Unalias(m.T).Underlying().(*types.Map)
		ex.mapDelete(st, m.T, m.S(), ex.packKey(st, mm, k))
		return Val{T: rt}
	case "copy":
		dst := args[0]
		if sl, ok := types.Unalias(dst.T).Underlying().(*types.Slice); ok {
			src := args[1]
			if _, isSl := types.Unalias(src.T).Underlying().(*types.Slice); !isSl {
				// copy(dst, string): contents not modelled
				for _, l := range Layout(sl.Elem()) {
					name := elemHeapName(sl.Elem(), l.Path)
					srt := ArrSort(SInt, ArrSort(SInt, l.Sort))
					h := ex.heapGet(st, name, srt)
					ex.heapSet(st, name, Store(h, dst.L[0], Fresh("copy", ArrSort(SInt, l.Sort))))
				}
				n := Fresh("ncopied", SInt)
				ex.assume(st, And(Ge(n, Int(0)), Le(n, dst.L[2])))
				return scalar(rt, n)
			}
			n := Ite(Lt(dst.L[2], src.L[2]), dst.L[2], src.L[2])
			ex.boundN++
			j := Bound(fmt.Sprintf("cj%d", ex.boundN), SInt)
			for _, l := range Layout(sl.Elem()) {
				name := elemHeapName(sl.Elem(), l.Path)
				rowS := ArrSort(SInt, l.Sort)
				h := ex.heapGet(st, name, ArrSort(SInt, rowS))
				oldRow := Fresh("dstrow", rowS)
				ex.assume(st, Eq(oldRow, Select(h, dst.L[0])))
				srcRow := Fresh("srcrow", rowS)
				ex.assume(st, Eq(srcRow, Select(h, src.L[0])))
				srcView := shiftRow(srcRow, src.L[1])
				nrow := Fresh("copyrow", rowS)
				dstView := shiftRow(nrow, dst.L[1])
				ex.assume(st, Forall([]*Term{j}, Implies(And(Ge(j, Int(0)), Lt(j, n)), Eq(Select(dstView, j), Select(srcView, j))), []*Term{Select(dstView, j)}, []*Term{Select(srcView, j)}))
				ex.assume(st, Forall([]*Term{j}, Implies(Or(Lt(j, dst.L[1]), Ge(j, Add(dst.L[1], n))), Eq(Select(nrow, j), Select(oldRow, j))), []*Term{Select(nrow, j)}))
				ex.heapSet(st, name, Store(h, dst.L[0], nrow))
			}
			return scalar(rt, n)
		}
	case "min", "max":
		cur := args[0].S()
		for _, a := range args[1:] {
			if b.Name() == "min" {
				cur = Ite(Lt(a.S(), cur), a.S(), cur)
			} else {
				cur = Ite(Gt(a.S(), cur), a.S(), cur)
			}
		}
		return scalar(rt, cur)
	case "print", "println":
		return Val{T: rt}
	case "ssa:wrapnilchk":
		return args[0]
	case "ssa:deferstack":
		return ZeroVal(rt)
	case "recover":
		return ZeroVal(rt)
	case "clear":
		a := args[0]
		if _, ok := types.Unalias(a.T).Underlying().(*types.Map); ok {
			mh := mapOf(a.T)
			d := ex.heapGet(st, mh.domName(), mh.domSort())
			ex.heapSet(st, mh.domName(), Store(d, a.S(), ConstArr(ArrSort(mh.ks, SBool), False)))
			ln := ex.heapGet(st, mh.lenName(), ArrSort(SInt, SInt))
			ex.heapSet(st, mh.lenName(), Store(ln, a.S(), Int(0)))
			return Val{T: rt}
		}
	}
	unsupported("builtin %s on %v", b.Name(), cc.Args[0].Type())
	return Val{}
}

func (ex *Exec) lenOfMap(st *State, mt types.Type, m *Term) *Term {
	mh := mapOf(mt)
	ln := ex.mapLen(st, mt, m)
	ex.assume(st, Ge(ln, Int(0)))
	ex.assume(st, Implies(Eq(m, Int(0)), Eq(ln, Int(0))))
	ex.boundN++
	bk := Bound(fmt.Sprintf("k%d", ex.boundN), mh.ks)
	dom := ex.mapDom(st, mt, m)
	ex.assume(st, Forall([]*Term{bk}, Implies(And(Ne(m, Int(0)), Select(dom, bk)), Ge(ln, Int(1)))))
	// len == 0 <=> empty is needed in the other direction too: a non-empty count implies a witness
	w := Fresh("mw", mh.ks)
	ex.assume(st, Implies(Ge(ln, Int(1)), And(Ne(m, Int(0)), Select(dom, w))))
	return ln
}

func (ex *Exec) strLen(st *State, s *Term) *Term {
	if s.IsIntLit() {
		if lit, ok := ex.eng.strOf(s.IntVal().Int64()); ok {
			return Int(int64(len(lit)))
		}
	}
	l := UF("strlen", SInt, s)
	ex.assume(st, Ge(l, Int(0)))
	ex.assume(st, Iff(Eq(l, Int(0)), Eq(s, ex.eng.strLit(""))))
	return l
}

func (ex *Exec) doAppend(st *State, s, xs Val, rt types.Type) Val {
	sl := types.Unalias(rt).Underlying().(*types.Slice)
	el := sl.Elem()
	if _, isStr := types.Unalias(xs.T).Underlying().(*types.Basic); isStr {
		r := ex.freshResult(st, "appendstr", rt)
		return r
	}
	sarr, soff, slen := s.L[0], s.L[1], s.L[2]
	xarr, xoff, xlen := xs.L[0], xs.L[1], xs.L[2]
	id := ex.alloc(st, "E_"+heapKeyT(el))
	for _, l := range Layout(el) {
		name := elemHeapName(el, l.Path)
		rowS := ArrSort(SInt, l.Sort)
		h := ex.heapGet(st, name, ArrSort(SInt, rowS))
		var row *Term
		if isZero(soff) {
			row = Select(h, sarr)
		} else {
			row = Fresh("approw", rowS)
			ex.boundN++
			j := Bound(fmt.Sprintf("j%d", ex.boundN), SInt)
			// the source row gets a name: after a branch merge the heap is an ite term, and z3 drops a pattern that contains one
			srow := Fresh("srcrow", rowS)
			ex.assume(st, Eq(srow, Select(h, sarr)))
			src := shiftRow(srow, soff)
			ex.assume(st, Forall([]*Term{j}, Implies(And(Ge(j, Int(0)), Lt(j, slen)), Eq(Select(row, j), Select(src, j))), []*Term{Select(row, j)}, []*Term{Select(src, j)}))
		}
		if xlen.IsIntLit() && xlen.IntVal().Int64() <= 16 {
			n := xlen.IntVal().Int64()
			for i := int64(0); i < n; i++ {
				row = Store(row, Add(slen, Int(i)), Select(Select(h, xarr), Add(xoff, Int(i))))
			}
		} else {
			nrow := Fresh("approw", rowS)
			ex.boundN++
			j := Bound(fmt.Sprintf("j%d", ex.boundN), SInt)
			ex.assume(st, Forall([]*Term{j}, Implies(And(Ge(j, Int(0)), Lt(j, slen)), Eq(Select(nrow, j), Select(row, j))), []*Term{Select(nrow, j)}, []*Term{Select(row, j)}))
			xrow := Fresh("xsrcrow", rowS)
			ex.assume(st, Eq(xrow, Select(h, xarr)))
			xsrc := shiftRow(xrow, xoff)
			tail := shiftRow(nrow, slen)
			ex.assume(st, Forall([]*Term{j}, Implies(And(Ge(j, Int(0)), Lt(j, xlen)), Eq(Select(tail, j), Select(xsrc, j))), []*Term{Select(tail, j)}, []*Term{Select(xsrc, j)}))
			row = nrow
		}
		ex.heapSet(st, name, Store(h, id, row))
	}
	return Val{T: rt, L: []*Term{id, Int(0), Add(slen, xlen)}}
}

// usesCallsDeep looks through spec function macros as well.
func (ex *Exec) usesCallsDeep(pkgPath string, e *SExpr, seen map[*SpecFunc]bool) bool {
	if e == nil {
		return false
	}
	if e.Op == "call" && len(e.Args) > 0 && e.Args[0].Op == "id" {
		if e.Args[0].Name == "calls" || e.Args[0].Name == "lastresult" {
			return true
		}
		if sf := ex.eng.findSpecFunc(pkgPath, e.Args[0].Name); sf != nil && sf.Body != nil && !seen[sf] {
			seen[sf] = true
			if ex.usesCallsDeep(sf.PkgPath, sf.Body, seen) {
				return true
			}
		}
	}
	for _, a := range e.Args {
		if ex.usesCallsDeep(pkgPath, a, seen) {
			return true
		}
	}
	return false
}

func usesCalls(e *SExpr) bool {
	if e == nil {
		return false
	}
	if e.Op == "call" && e.Args[0].Op == "id" && (e.Args[0].Name == "calls" || e.Args[0].Name == "lastresult") {
		return true
	}
	for _, a := range e.Args {
		if usesCalls(a) {
			return true
		}
	}
	return false
}

// isObserver: function-typed parameters / fields declared with `option observers a b` are called for their
// result only (no effect on modelled state; the result is arbitrary).
func (ex *Exec) isObserver(key string) bool {
	if ex.con == nil {
		return false
	}
	for _, pat := range strings.Fields(ex.con.Opts["observers"]) {
		if strings.HasSuffix(key, "."+pat) {
			return true
		}
	}
	return false
}
