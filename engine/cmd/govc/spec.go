package main

// Contract files: scanner for //@ lines, block structure, Pratt parser for spec expressions.

import (
	"fmt"
	"os"
	"regexp"
	"strconv"
	"strings"
)

type SVar struct {
	Name string
	Type string
}

type SExpr struct {
	Op   string // id int float str call sel index slice unary binary forall exists cond
	Name string // identifier / operator / field name / literal text
	Args []*SExpr
	Vars []SVar
	Pats [][]*SExpr
	Pos  string
}

func (e *SExpr) String() string {
	switch e.Op {
	case "id", "int", "float":
		return e.Name
	case "str":
		return strconv.Quote(e.Name)
	case "sel":
		return e.Args[0].String() + "." + e.Name
	case "index":
		return e.Args[0].String() + "[" + e.Args[1].String() + "]"
	case "call":
		var as []string
		for _, a := range e.Args[1:] {
			as = append(as, a.String())
		}
		return e.Args[0].String() + "(" + strings.Join(as, ", ") + ")"
	case "unary":
		return e.Name + e.Args[0].String()
	case "binary":
		return "(" + e.Args[0].String() + " " + e.Name + " " + e.Args[1].String() + ")"
	case "cond":
		return "(" + e.Args[0].String() + " ? " + e.Args[1].String() + " : " + e.Args[2].String() + ")"
	case "forall", "exists":
		var vs []string
		for _, v := range e.Vars {
			vs = append(vs, v.Name+" "+v.Type)
		}
		return "(" + e.Op + " " + strings.Join(vs, ", ") + " :: " + e.Args[0].String() + ")"
	}
	return "<" + e.Op + ">"
}

// ---- lexer ----

type tok struct {
	kind string // id int float str op eof
	text string
}

func lex(s string) ([]tok, error) {
	var out []tok
	i := 0
	ops := []string{"<==>", "==>", "::", "==", "!=", "<=", ">=", "&&", "||", "=>", "+", "-", "*", "/", "%", "(", ")", "[", "]", ",", ".", "?", ":", "{", "}", "#", "=", "|", "!", "<", ">", "@"}
	for i < len(s) {
		c := s[i]
		switch {
		case c == ' ' || c == '\t':
			i++
		case c == '"':
			j := i + 1
			for j < len(s) && s[j] != '"' {
				if s[j] == '\\' {
					j++
				}
				j++
			}
			if j >= len(s) {
				return nil, fmt.Errorf("unterminated string in %q", s)
			}
			u, err := strconv.Unquote(s[i : j+1])
			if err != nil {
				return nil, err
			}
			out = append(out, tok{"str", u})
			i = j + 1
		case c >= '0' && c <= '9':
			j := i
			isF := false
			for j < len(s) && (s[j] >= '0' && s[j] <= '9' || s[j] == '_' || (s[j] == '.' && j+1 < len(s) && s[j+1] >= '0' && s[j+1] <= '9')) {
				if s[j] == '.' {
					isF = true
				}
				j++
			}
			k := "int"
			if isF {
				k = "float"
			}
			out = append(out, tok{k, strings.ReplaceAll(s[i:j], "_", "")})
			i = j
		case c == '_' || c == '$' || c >= 'a' && c <= 'z' || c >= 'A' && c <= 'Z':
			j := i
			for j < len(s) && (s[j] == '_' || s[j] == '$' || s[j] >= 'a' && s[j] <= 'z' || s[j] >= 'A' && s[j] <= 'Z' || s[j] >= '0' && s[j] <= '9') {
				j++
			}
			out = append(out, tok{"id", s[i:j]})
			i = j
		default:
			found := false
			for _, o := range ops {
				if strings.HasPrefix(s[i:], o) {
					out = append(out, tok{"op", o})
					i += len(o)
					found = true
					break
				}
			}
			if !found {
				return nil, fmt.Errorf("bad character %q in %q", c, s)
			}
		}
	}
	out = append(out, tok{"eof", ""})
	return out, nil
}

// ---- parser ----

type sparser struct {
	toks []tok
	p    int
	src  string
}

func (p *sparser) peek() tok { return p.toks[p.p] }
func (p *sparser) next() tok { t := p.toks[p.p]; p.p++; return t }
func (p *sparser) isOp(s string) bool {
	t := p.peek()
	return t.kind == "op" && t.text == s
}
func (p *sparser) expect(s string) {
	if !p.isOp(s) {
		panic(fmt.Errorf("expected %q at token %d (%q) in: %s", s, p.p, p.peek().text, p.src))
	}
	p.p++
}

var binPrec = map[string]int{
	"<==>": 1, "==>": 2, "||": 4, "&&": 5,
	"==": 6, "!=": 6, "<": 6, "<=": 6, ">": 6, ">=": 6,
	"+": 7, "-": 7, "|": 7, "*": 8, "/": 8, "%": 8,
}

func ParseSpecExpr(s string) (e *SExpr, err error) {
	toks, err := lex(s)
	if err != nil {
		return nil, err
	}
	p := &sparser{toks: toks, src: s}
	defer func() {
		if r := recover(); r != nil {
			if er, ok := r.(error); ok {
				err = er
				return
			}
			panic(r)
		}
	}()
	e = p.expr(0)
	if p.peek().kind != "eof" {
		return nil, fmt.Errorf("trailing tokens at %q in: %s", p.peek().text, s)
	}
	return e, nil
}

func (p *sparser) expr(minPrec int) *SExpr {
	lhs := p.unary()
	for {
		t := p.peek()
		if t.kind != "op" {
			break
		}
		if t.text == "?" && minPrec <= 3 {
			p.next()
			a := p.expr(0)
			p.expect(":")
			b := p.expr(3)
			lhs = &SExpr{Op: "cond", Args: []*SExpr{lhs, a, b}}
			continue
		}
		prec, ok := binPrec[t.text]
		if !ok || prec < minPrec {
			break
		}
		p.next()
		var rhs *SExpr
		if t.text == "==>" || t.text == "<==>" {
			rhs = p.expr(prec) // right assoc
		} else {
			rhs = p.expr(prec + 1)
		}
		lhs = &SExpr{Op: "binary", Name: t.text, Args: []*SExpr{lhs, rhs}}
	}
	return lhs
}

func (p *sparser) unary() *SExpr {
	t := p.peek()
	if t.kind == "op" && (t.text == "!" || t.text == "-" || t.text == "*") {
		p.next()
		return &SExpr{Op: "unary", Name: t.text, Args: []*SExpr{p.unary()}}
	}
	if t.kind == "id" && (t.text == "forall" || t.text == "exists") {
		p.next()
		var vars []SVar
		for {
			n := p.next()
			if n.kind != "id" {
				panic(fmt.Errorf("quantifier variable expected in: %s", p.src))
			}
			// type: tokens until , or ::
			var ty strings.Builder
			for !(p.isOp(",") || p.isOp("::")) {
				tt := p.next()
				if tt.kind == "eof" {
					panic(fmt.Errorf("quantifier: missing :: in: %s", p.src))
				}
				ty.WriteString(tt.text)
			}
			vars = append(vars, SVar{n.text, ty.String()})
			if p.isOp(",") {
				p.next()
				continue
			}
			break
		}
		p.expect("::")
		var pats [][]*SExpr
		for p.isOp("{") {
			p.next()
			var pat []*SExpr
			for {
				pat = append(pat, p.expr(0))
				if p.isOp(",") {
					p.next()
					continue
				}
				break
			}
			p.expect("}")
			pats = append(pats, pat)
		}
		body := p.expr(0)
		// vars declared with a shared type: "forall i, j int ::" -> earlier vars with empty type take the next type
		for i := len(vars) - 1; i >= 0; i-- {
			if vars[i].Type == "" && i+1 < len(vars) {
				vars[i].Type = vars[i+1].Type
			}
		}
		return &SExpr{Op: t.text, Vars: vars, Args: []*SExpr{body}, Pats: pats}
	}
	return p.postfix(p.primary())
}

func (p *sparser) primary() *SExpr {
	t := p.next()
	switch t.kind {
	case "int", "float", "str", "id":
		return &SExpr{Op: t.kind, Name: t.text}
	case "op":
		if t.text == "(" {
			e := p.expr(0)
			p.expect(")")
			return e
		}
	}
	panic(fmt.Errorf("unexpected token %q in: %s", t.text, p.src))
}

func (p *sparser) postfix(e *SExpr) *SExpr {
	for {
		switch {
		case p.isOp("."):
			p.next()
			n := p.next()
			if n.kind != "id" {
				panic(fmt.Errorf("field name expected in: %s", p.src))
			}
			e = &SExpr{Op: "sel", Name: n.text, Args: []*SExpr{e}}
		case p.isOp("["):
			p.next()
			if p.isOp(":") {
				p.next()
				hi := p.expr(0)
				p.expect("]")
				e = &SExpr{Op: "slice", Args: []*SExpr{e, nil, hi}}
				continue
			}
			i := p.expr(0)
			if p.isOp(":") {
				p.next()
				var hi *SExpr
				if !p.isOp("]") {
					hi = p.expr(0)
				}
				p.expect("]")
				e = &SExpr{Op: "slice", Args: []*SExpr{e, i, hi}}
				continue
			}
			p.expect("]")
			e = &SExpr{Op: "index", Args: []*SExpr{e, i}}
		case p.isOp("("):
			p.next()
			args := []*SExpr{e}
			for !p.isOp(")") {
				args = append(args, p.expr(0))
				if p.isOp(",") {
					p.next()
				}
			}
			p.expect(")")
			e = &SExpr{Op: "call", Args: args}
		default:
			return e
		}
	}
}

// ---- contract blocks ----

type Clause struct {
	Label string
	Text  string
	E     *SExpr
	Props []string
	Where string // file:line
}

type CallAssert struct {
	Callee string // substring/suffix of callee name
	Ord    int    // 0 = every call
	Clause *Clause
	After  bool
}

type GhostDecl struct {
	Name string
	Type string
	Init *SExpr
}

type Contract struct {
	Key      string // short key as written
	FullKey  string // resolved key: ssa function String()
	PkgPath  string
	Extern   bool
	Props    []string
	Requires []*Clause
	Ensures  []*Clause
	HasMod   bool
	ModInferred bool // frame = syntactic write-set of the body (sound by construction, not an obligation)
	Modifies []*SExpr // each a designator expression; empty + HasMod => nothing
	LoopInv  map[int][]*Clause
	LoopMod  map[int][]*SExpr
	Asserts  []*CallAssert
	Opts     map[string]string
	Where    string
	Lets     []SpecLet
	UseLemmas []string
}

type SpecLet struct {
	Name string
	E    *SExpr
}

type SpecFunc struct {
	Name    string
	Params  []SVar
	Ret     string
	Body    *SExpr
	PkgPath string
	Uninter bool // declared without body
	Opaque  bool // uninterpreted in VCs; body given by a definitional axiom
}

type Lemma struct {
	Name    string
	Props   []string
	E       *SExpr
	PkgPath string
	Where   string
	Vars    []SVar
	Uses    []string // earlier lemmas assumed in this lemma's proof
}

type Axiom struct {
	Name    string
	E       *SExpr
	PkgPath string
	Where   string
}

type SpecFile struct {
	Path      string
	PkgPath   string
	Imports   map[string]string
	Contracts []*Contract
	SpecFuncs []*SpecFunc
	Lemmas    []*Lemma
	Axioms    []*Axiom
	Pure      []string // pure observer function keys
	Opaque    []string // spec functions kept uninterpreted in VCs (definition available as an axiom)
	Ignore    []string
	Observer  []string
	Uses      []string
}

var propsRe = regexp.MustCompile(`\[((?:C\d\d)(?:\s*,\s*C\d\d)*)\]\s*$`)
var labelRe = regexp.MustCompile(`^#([A-Za-z0-9_\-]+):\s*`)

func splitProps(s string) (string, []string) {
	m := propsRe.FindStringSubmatchIndex(s)
	if m == nil {
		return strings.TrimSpace(s), nil
	}
	ps := strings.Split(s[m[2]:m[3]], ",")
	for i := range ps {
		ps[i] = strings.TrimSpace(ps[i])
	}
	return strings.TrimSpace(s[:m[0]]), ps
}

var keywords = map[string]bool{"opaque": true, "use": true, "func": true, "extern": true, "spec": true, "axiom": true, "lemma": true, "pure": true, "ignore": true, "observer": true,
	"requires": true, "ensures": true, "modifies": true, "loop": true, "assert": true, "option": true, "import": true, "uses": true, "let": true, "package": true}

// ParseSpecFile reads //@ lines. pkgPath is the import path the file belongs to ("" for lib files).
func ParseSpecFile(path, pkgPath string) (*SpecFile, error) {
	data, err := os.ReadFile(path)
	if err != nil {
		return nil, err
	}
	sf := &SpecFile{Path: path, PkgPath: pkgPath, Imports: map[string]string{}}
	type line struct {
		no   int
		text string
	}
	var lines []line
	for i, raw := range strings.Split(string(data), "\n") {
		t := strings.TrimSpace(raw)
		if !strings.HasPrefix(t, "//@") {
			continue
		}
		t = strings.TrimSpace(t[3:])
		if t == "" {
			continue
		}
		// strip trailing comment " // ..."
		if k := strings.Index(t, " // "); k >= 0 {
			t = strings.TrimSpace(t[:k])
		}
		first := t
		if k := strings.IndexAny(t, " \t"); k >= 0 {
			first = t[:k]
		}
		if !keywords[first] && len(lines) > 0 {
			lines[len(lines)-1].text += " " + t
			continue
		}
		lines = append(lines, line{i + 1, t})
	}
	var cur *Contract
	curPkg := pkgPath
	mkClause := func(text string, no int) (*Clause, error) {
		text, props := splitProps(text)
		label := ""
		if m := labelRe.FindStringSubmatch(text); m != nil {
			label = m[1]
			text = text[len(m[0]):]
		}
		e, err := ParseSpecExpr(text)
		if err != nil {
			return nil, fmt.Errorf("%s:%d: %v", path, no, err)
		}
		return &Clause{Label: label, Text: text, E: e, Props: props, Where: fmt.Sprintf("%s:%d", path, no)}, nil
	}
	for _, ln := range lines {
		t := ln.text
		word, rest := t, ""
		if k := strings.IndexAny(t, " \t"); k >= 0 {
			word, rest = t[:k], strings.TrimSpace(t[k+1:])
		}
		where := fmt.Sprintf("%s:%d", path, ln.no)
		switch word {
		case "package":
			curPkg = rest
			sf.PkgPath = rest
		case "import":
			f := strings.Fields(rest)
			if len(f) != 2 {
				return nil, fmt.Errorf("%s: import alias \"path\"", where)
			}
			sf.Imports[f[0]] = strings.Trim(f[1], "\"")
		case "opaque":
			sf.Opaque = append(sf.Opaque, strings.Fields(strings.ReplaceAll(rest, ",", " "))...)
		case "use":
			if cur == nil {
				return nil, fmt.Errorf("%s: use outside func", where)
			}
			f := strings.Fields(strings.ReplaceAll(rest, ",", " "))
			if len(f) < 2 || f[0] != "lemma" {
				return nil, fmt.Errorf("%s: use lemma <name>...", where)
			}
			cur.UseLemmas = append(cur.UseLemmas, f[1:]...)
		case "uses":
			for _, u := range strings.Split(rest, ",") {
				sf.Uses = append(sf.Uses, strings.TrimSpace(u))
			}
		case "func", "extern":
			ext := word == "extern"
			if ext {
				rest = strings.TrimSpace(strings.TrimPrefix(rest, "func"))
			}
			name, props := splitProps(rest)
			cur = &Contract{Key: name, Extern: ext, Props: props, PkgPath: curPkg, LoopInv: map[int][]*Clause{}, LoopMod: map[int][]*SExpr{}, Opts: map[string]string{}, Where: where}
			sf.Contracts = append(sf.Contracts, cur)
		case "pure":
			sf.Pure = append(sf.Pure, strings.TrimSpace(strings.TrimPrefix(rest, "func")))
			cur = nil
		case "ignore":
			sf.Ignore = append(sf.Ignore, strings.TrimSpace(strings.TrimPrefix(rest, "func")))
			cur = nil
		case "observer":
			sf.Observer = append(sf.Observer, strings.TrimSpace(strings.TrimPrefix(rest, "func")))
			cur = nil
		case "spec":
			// spec func name(a T, b U) R = expr     |  spec func name(a T) R   (uninterpreted)
			rest = strings.TrimSpace(strings.TrimPrefix(rest, "func"))
			op := strings.Index(rest, "(")
			cp := matchParen(rest, op)
			if op < 0 || cp < 0 {
				return nil, fmt.Errorf("%s: bad spec func", where)
			}
			fn := &SpecFunc{Name: strings.TrimSpace(rest[:op]), PkgPath: curPkg}
			for _, prm := range splitTop(rest[op+1:cp], ',') {
				prm = strings.TrimSpace(prm)
				if prm == "" {
					continue
				}
				k := strings.IndexAny(prm, " \t")
				if k < 0 {
					return nil, fmt.Errorf("%s: spec func param needs a type: %q", where, prm)
				}
				fn.Params = append(fn.Params, SVar{prm[:k], strings.ReplaceAll(strings.TrimSpace(prm[k+1:]), " ", "")})
			}
			tail := strings.TrimSpace(rest[cp+1:])
			if k := strings.Index(tail, "="); k >= 0 {
				fn.Ret = strings.TrimSpace(tail[:k])
				e, err := ParseSpecExpr(strings.TrimSpace(tail[k+1:]))
				if err != nil {
					return nil, fmt.Errorf("%s: %v", where, err)
				}
				fn.Body = e
			} else {
				fn.Ret = tail
				fn.Uninter = true
			}
			sf.SpecFuncs = append(sf.SpecFuncs, fn)
			cur = nil
		case "axiom", "lemma":
			k := strings.Index(rest, ":")
			if k < 0 {
				return nil, fmt.Errorf("%s: %s name: expr", where, word)
			}
			name := strings.TrimSpace(rest[:k])
			body, props := splitProps(strings.TrimSpace(rest[k+1:]))
			name, p2 := splitProps(name)
			props = append(props, p2...)
			e, err := ParseSpecExpr(body)
			if err != nil {
				return nil, fmt.Errorf("%s: %v", where, err)
			}
			if word == "axiom" {
				sf.Axioms = append(sf.Axioms, &Axiom{Name: name, E: e, PkgPath: curPkg, Where: where})
			} else {
				sf.Lemmas = append(sf.Lemmas, &Lemma{Name: name, Props: props, E: e, PkgPath: curPkg, Where: where})
			}
			cur = nil
		case "requires", "ensures":
			if cur == nil {
				return nil, fmt.Errorf("%s: %s outside func", where, word)
			}
			c, err := mkClause(rest, ln.no)
			if err != nil {
				return nil, err
			}
			if word == "requires" {
				cur.Requires = append(cur.Requires, c)
			} else {
				cur.Ensures = append(cur.Ensures, c)
			}
		case "let":
			if cur == nil {
				return nil, fmt.Errorf("%s: let outside func", where)
			}
			k := strings.Index(rest, "=")
			if k < 0 {
				return nil, fmt.Errorf("%s: let name = expr", where)
			}
			e, err := ParseSpecExpr(strings.TrimSpace(rest[k+1:]))
			if err != nil {
				return nil, fmt.Errorf("%s: %v", where, err)
			}
			cur.Lets = append(cur.Lets, SpecLet{strings.TrimSpace(rest[:k]), e})
		case "modifies":
			if cur == nil {
				return nil, fmt.Errorf("%s: modifies outside func", where)
			}
			if rest == "inferred" {
				cur.ModInferred = true
				break
			}
			cur.HasMod = true
			if rest == "nothing" {
				break
			}
			for _, m := range splitTop(rest, ',') {
				e, err := ParseSpecExpr(strings.TrimSpace(m))
				if err != nil {
					return nil, fmt.Errorf("%s: %v", where, err)
				}
				cur.Modifies = append(cur.Modifies, e)
			}
		case "loop":
			if cur == nil {
				return nil, fmt.Errorf("%s: loop outside func", where)
			}
			f := strings.Fields(rest)
			if len(f) < 3 {
				return nil, fmt.Errorf("%s: loop <k> invariant <expr>", where)
			}
			k, err := strconv.Atoi(f[0])
			if err != nil {
				return nil, fmt.Errorf("%s: loop ordinal: %v", where, err)
			}
			body := strings.TrimSpace(strings.TrimPrefix(strings.TrimSpace(strings.TrimPrefix(rest, f[0])), f[1]))
			switch f[1] {
			case "invariant":
				c, err := mkClause(body, ln.no)
				if err != nil {
					return nil, err
				}
				cur.LoopInv[k] = append(cur.LoopInv[k], c)
			default:
				return nil, fmt.Errorf("%s: unknown loop clause %q", where, f[1])
			}
		case "assert":
			// assert before call <callee>[#n]: expr   |  assert after call <callee>[#n]: expr
			if cur == nil {
				return nil, fmt.Errorf("%s: assert outside func", where)
			}
			if mr := regexp.MustCompile(`^at\s+return\s*:\s*(.*)$`).FindStringSubmatch(rest); mr != nil {
				// assert at return: expr   (checked at every return statement; locals and results visible)
				c, err := mkClause(mr[1], ln.no)
				if err != nil {
					return nil, err
				}
				cur.Asserts = append(cur.Asserts, &CallAssert{Callee: "$return", Clause: c})
				break
			}
			m := regexp.MustCompile(`^(before|after)\s+call\s+(\S+?)(?:#(\d+))?\s*:\s*(.*)$`).FindStringSubmatch(rest)
			if m == nil {
				return nil, fmt.Errorf("%s: assert before|after call <callee>[#n]: expr  |  assert at return: expr", where)
			}
			ord := 0
			if m[3] != "" {
				ord, _ = strconv.Atoi(m[3])
			}
			c, err := mkClause(m[4], ln.no)
			if err != nil {
				return nil, err
			}
			cur.Asserts = append(cur.Asserts, &CallAssert{Callee: m[2], Ord: ord, Clause: c, After: m[1] == "after"})
		case "option":
			if cur == nil {
				return nil, fmt.Errorf("%s: option outside func", where)
			}
			f := strings.Fields(rest)
			v := "true"
			if len(f) > 1 {
				v = strings.Join(f[1:], " ")
			}
			cur.Opts[f[0]] = v
		default:
			return nil, fmt.Errorf("%s: unknown directive %q", where, word)
		}
	}
	return sf, nil
}

func matchParen(s string, open int) int {
	if open < 0 {
		return -1
	}
	d := 0
	for i := open; i < len(s); i++ {
		switch s[i] {
		case '(':
			d++
		case ')':
			d--
			if d == 0 {
				return i
			}
		}
	}
	return -1
}

func splitTop(s string, sep byte) []string {
	var out []string
	d := 0
	last := 0
	inStr := false
	for i := 0; i < len(s); i++ {
		c := s[i]
		if c == '"' {
			inStr = !inStr
		}
		if inStr {
			continue
		}
		switch c {
		case '(', '[', '{':
			d++
		case ')', ']', '}':
			d--
		default:
			if c == sep && d == 0 {
				out = append(out, s[last:i])
				last = i + 1
			}
		}
	}
	out = append(out, s[last:])
	return out
}
