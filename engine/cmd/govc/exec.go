package main

// Symbolic executor over naive-form go/ssa: state, frames, block scheduling, loops.

import (
	"fmt"
	"go/token"
	"go/types"
	"sort"
	"strings"

	"golang.org/x/tools/go/ssa"
)

type State struct {
	cells map[*Cell]Val
	heap  map[string]*Term
	wm    *WMs
	guard *Term
	hv    *hvNode // havoc events in this state's history that cover heaps not yet materialised in `heap`
}

// hvNode records a "forget" event (unknown call, summarised call, loop containing one) so that heap
// families touched for the first time afterwards do not appear unchanged.
type hvNode struct {
	id    int
	all   bool
	set   map[string]bool
	wm    *WMs
	prev  *hvNode
	merge []hvEdge
}

type hvEdge struct {
	g  *Term
	hv *hvNode
}

var hvSeq int

func newHV(all bool, set map[string]bool, wm *WMs, prev *hvNode) *hvNode {
	hvSeq++
	return &hvNode{id: hvSeq, all: all, set: set, wm: wm.clone(), prev: prev}
}

// WMs holds the allocation watermarks of a state: one per allocation space (see refKeyOf). Object ids of a space are the
// integers 1..watermark; an allocation in one space leaves every other space alone, so a fact quantified over "all
// objects of type T" (which means: over the allocated ones) survives allocations of other types. Spaces never touched
// explicitly share a lazily created default symbol per generation; a generation ends when an unknown callee may have
// allocated anything (bumpAll) or where paths with different generations join.
type WMs struct {
	m   map[string]*Term
	gen *wmGen
}

type wmGen struct {
	id    int
	prev  *WMs // watermarks before the event that started this generation (nil: function entry)
	merge []wmEdge
}

type wmEdge struct {
	g  *Term
	wm *WMs
}

var wmGenSeq int

func newWMs() *WMs { return &WMs{m: map[string]*Term{}, gen: &wmGen{}} }

func (w *WMs) clone() *WMs {
	n := &WMs{m: make(map[string]*Term, len(w.m)), gen: w.gen}
	for k, v := range w.m {
		n.m[k] = v
	}
	return n
}

// Get returns the watermark of allocation space key.
func (ex *Exec) wmGet(w *WMs, key string) *Term {
	if t, ok := w.m[key]; ok {
		return t
	}
	g := w.gen
	var t *Term
	switch {
	case g.merge != nil:
		for i := len(g.merge) - 1; i >= 0; i-- {
			d := ex.wmGet(g.merge[i].wm, key)
			if t == nil {
				t = d
			} else {
				t = Ite(g.merge[i].g, d, t)
			}
		}
	case g.prev == nil:
		t = Sym("alloc0_"+key, SInt)
		if ex.emitted == nil {
			ex.emitted = map[string]bool{}
		}
		if !ex.emitted["wm:"+t.name] {
			ex.emitted["wm:"+t.name] = true
			ex.assumeRaw(Ge(t, Int(1)))
		}
	default:
		t = Sym(fmt.Sprintf("alloc%d_%s", g.id, key), SInt)
		if ex.emitted == nil {
			ex.emitted = map[string]bool{}
		}
		if !ex.emitted["wm:"+t.name] {
			ex.emitted["wm:"+t.name] = true
			ex.assumeRaw(Ge(t, ex.wmGet(g.prev, key)))
		}
	}
	w.m[key] = t
	return t
}

func (ex *Exec) wm(st *State, key string) *Term { return ex.wmGet(st.wm, key) }


// heapDefault is the value of a heap family that has not been materialised in a state yet.
func (ex *Exec) heapDefault(hv *hvNode, name string, sort Sort) *Term {
	for hv != nil {
		if hv.merge != nil {
			var cur *Term
			for i := len(hv.merge) - 1; i >= 0; i-- {
				d := ex.heapDefault(hv.merge[i].hv, name, sort)
				if cur == nil {
					cur = d
				} else {
					cur = Ite(hv.merge[i].g, d, cur)
				}
			}
			return cur
		}
		if hv.all || hv.set[name] {
			symName := fmt.Sprintf("%s@hv%d", name, hv.id)
			t := Sym(symName, sort)
			if ex.emitted == nil {
				ex.emitted = map[string]bool{}
			}
			if !ex.emitted["hv:"+symName] {
				ex.emitted["hv:"+symName] = true
				ex.heapFacts(name, t, hv.wm)
			}
			return t
		}
		hv = hv.prev
	}
	return Sym(name+"@0", sort)
}

func (s *State) clone() *State {
	n := &State{cells: make(map[*Cell]Val, len(s.cells)), heap: make(map[string]*Term, len(s.heap)), wm: s.wm.clone(), guard: s.guard, hv: s.hv}
	for k, v := range s.cells {
		n.cells[k] = v
	}
	for k, v := range s.heap {
		n.heap[k] = v
	}
	return n
}

type Oblig struct {
	Name      string
	Kind      string
	NAssump   int
	Guard     *Term
	Goal      *Term
	ExpectSat bool   // cover queries
	Where     string // source position
	Extra     []*Term
	Props     []string
}

type Unsupported struct{ msg string }

func (u Unsupported) Error() string { return u.msg }

func unsupported(format string, a ...interface{}) {
	panic(Unsupported{fmt.Sprintf(format, a...)})
}

// Exec verifies one function (with everything inlined into it).
type Exec struct {
	arithMul bool
	wm0      *WMs          // watermarks at function entry
	freshSeq map[*Term]int // allocation order of object ids created by alloc / declared fresh by a contract
	freshCtr int
	eng     *Engine
	top     *ssa.Function
	con     *Contract
	assumps []*Term
	obligs  []*Oblig
	heapSrt map[string]Sort
	cellSeq int
	dry     int
	wlog    *writeLog
	notes   map[string]bool // "inline:<fn>", "extern:<fn>", "pure:<fn>", "ignore:<fn>", "havoc:<fn>", "assume:<text>"
	callOrd map[string]int
	ordinal map[string]int
	stack   []*ssa.Function
	entry   *State
	checked map[string]bool // nopanic classes enabled
	arith   bool
	ranged  bool // assume (not prove) that integer values and results stay in their type's range
	curPos  token.Pos
	boundN  int
	allocs  int
	propsOf []string
	pendingEnv0 *SpecEnv
	callCells   map[string]*Cell // ghost counters: calls("pattern")
	resCells    map[string]*Cell // ghost: lastresult("pattern") = result of the latest matching call
	ifaceVals   map[*Term]Val    // interface id -> boxed value (Go side)
	inlinedInstr int
	impure       int // bumped by every havoc / summary / loop cut (used to detect non-straight-line evaluations)
	emitted      map[string]bool // once-only facts already asserted (rolled back together with assumptions in dry runs)
	opaqueDone   map[string]bool
	pendingSummaries []*wset // write sets of summarised callees: heaps first touched later must still be havocked
	havocEpoch  int
}

type writeLog struct {
	cells map[*Cell]bool
	heaps map[string]*heapW
	hvAll bool
	hvSet map[string]bool
	// objects allocated while this log is active (after freshFrom in ex.freshSeq) lie above the watermark the
	// logged region started from: writes to their rows cannot touch any object that existed before
	// Such writes are not logged: the unallocated space above a watermark is unconstrained in every heap symbol, so
	// the heap the region started from already stands for "whatever earlier iterations left in their own objects".
	ex        *Exec
	freshFrom int
	allocKeys map[string]bool // allocation spaces in which the region allocates
	allocAll  bool
}

func (wl *writeLog) logAlloc(key string) {
	if wl.allocKeys == nil {
		wl.allocKeys = map[string]bool{}
	}
	wl.allocKeys[key] = true
}

type heapW struct {
	whole bool
	idx   []*Term
}

func (wl *writeLog) logHeap(name string, idx *Term) {
	if idx != nil && wl.ex != nil && wl.ex.freshSeq[idx] > wl.freshFrom {
		return
	}
	w := wl.heaps[name]
	if w == nil {
		w = &heapW{}
		wl.heaps[name] = w
	}
	if idx == nil {
		w.whole = true
		return
	}
	for _, x := range w.idx {
		if x == idx {
			return
		}
	}
	w.idx = append(w.idx, idx)
}

// markFresh registers the id of an object allocated just now.
func (ex *Exec) markFresh(id *Term) {
	if ex.freshSeq == nil {
		ex.freshSeq = map[*Term]int{}
	}
	ex.freshCtr++
	ex.freshSeq[id] = ex.freshCtr
}

func (wl *writeLog) absorb(o *writeLog) {
	if o.hvAll {
		wl.hvAll = true
	}
	if o.allocAll {
		wl.allocAll = true
	}
	for k := range o.allocKeys {
		wl.logAlloc(k)
	}
	for n := range o.hvSet {
		if wl.hvSet == nil {
			wl.hvSet = map[string]bool{}
		}
		wl.hvSet[n] = true
	}
	for c := range o.cells {
		wl.cells[c] = true
	}
	for n, w := range o.heaps {
		if w.whole {
			wl.logHeap(n, nil)
		}
		for _, x := range w.idx {
			wl.logHeap(n, x)
		}
		if !w.whole && len(w.idx) == 0 {
			wl.logHeap(n, nil)
		}
	}
}

// symsAfter reports whether t mentions a fresh symbol numbered above mark.
func symsAfter(t *Term, mark int, seen map[int]bool) bool {
	if seen[t.id] {
		return false
	}
	seen[t.id] = true
	if t.op == "const" {
		if i := strings.LastIndex(t.name, "!"); i >= 0 {
			n := 0
			fmt.Sscanf(t.name[i+1:], "%d", &n)
			if n > mark {
				return true
			}
		}
		return false
	}
	for _, a := range t.args {
		if symsAfter(a, mark, seen) {
			return true
		}
	}
	return false
}

func (ex *Exec) note(kind, what string) {
	if ex.dry > 0 {
		return
	}
	ex.notes[kind+":"+what] = true
}

func (ex *Exec) assume(st *State, fact *Term) {
	if fact == True || fact.bound {
		// side facts about a term under a quantifier (len of a quantified map, ...) cannot be stated outside it
		return
	}
	ex.assumps = append(ex.assumps, Implies(st.guard, fact))
}

func (ex *Exec) assumeRaw(fact *Term) {
	if fact == True || fact.bound {
		return
	}
	ex.assumps = append(ex.assumps, fact)
}

func (ex *Exec) posString(p token.Pos) string {
	if !p.IsValid() {
		p = ex.curPos
	}
	if !p.IsValid() {
		return ""
	}
	pos := ex.eng.fset.Position(p)
	return fmt.Sprintf("%s:%d", strings.TrimPrefix(pos.Filename, ex.eng.repo+"/"), pos.Line)
}

func (ex *Exec) oblige(st *State, kind, name string, goal *Term, pos token.Pos) *Oblig {
	if ex.dry > 0 {
		return nil
	}
	ex.ordinal[name]++
	full := name
	if n := ex.ordinal[name]; !strings.Contains(name, "#") || kindCounts(kind) {
		full = fmt.Sprintf("%s#%d", name, n)
	} else if n > 1 {
		full = fmt.Sprintf("%s~%d", name, n)
	}
	o := &Oblig{Name: full, Kind: kind, NAssump: len(ex.assumps), Guard: st.guard, Goal: goal, Where: ex.posString(pos)}
	ex.obligs = append(ex.obligs, o)
	return o
}

func kindCounts(kind string) bool { return kind == "nopanic" || kind == "overflow" }

// ---- heap access ----

func (ex *Exec) heapGet(st *State, name string, sort Sort) *Term {
	if t, ok := st.heap[name]; ok {
		return t
	}
	ex.heapSrt[name] = sort
	t0 := Sym(name+"@0", sort)
	if ex.emitted == nil {
		ex.emitted = map[string]bool{}
	}
	if !ex.emitted["heap0:"+name] {
		ex.emitted["heap0:"+name] = true
		ex.heapFacts(name, t0, ex.wm0)
	}
	if e := ex.entry; e != nil && e != st {
		if _, ok := e.heap[name]; !ok {
			e.heap[name] = t0
		}
	}
	t := ex.heapDefault(st.hv, name, sort)
	st.heap[name] = t
	return t
}

func (ex *Exec) heapSet(st *State, name string, v *Term) {
	if _, ok := st.heap[name]; !ok {
		ex.heapGet(st, name, v.sort)
	}
	prev := st.heap[name]
	st.heap[name] = v
	if ex.wlog != nil {
		// recognise store chains over the previous value: the rows that may differ are those stored above the
		// nearest common ancestor of the two chains (Store() collapses repeated writes to one index, so the new
		// chain need not contain the previous value itself)
		onPrev := map[*Term]int{}
		var prevIdx []*Term
		for c, i := prev, 0; i < 64; i++ {
			onPrev[c] = len(prevIdx)
			if c.op != "store" {
				break
			}
			prevIdx = append(prevIdx, c.args[1])
			c = c.args[0]
		}
		cur := v
		var idxs []*Term
		ok := false
		for i := 0; i < 64; i++ {
			if k, found := onPrev[cur]; found {
				ok = true
				idxs = append(idxs, prevIdx[:k]...)
				break
			}
			if cur.op != "store" {
				break
			}
			idxs = append(idxs, cur.args[1])
			cur = cur.args[0]
		}
		if ok {
			for _, ix := range idxs {
				ex.wlog.logHeap(name, ix)
			}
		} else {
			ex.wlog.logHeap(name, nil)
		}
	}
}

// heapLeafKind records, per heap name, what kind of values it stores: "ref" (object / map / backing-array ids),
// "nat" (slice length / offset), "uint", or "" (anything else).
var heapLeafKind = map[string]string{}

func leafKind(l Leaf) string {
	switch {
	case strings.HasSuffix(l.Path, "#arr"):
		return "ref"
	case strings.HasSuffix(l.Path, "#len") || strings.HasSuffix(l.Path, "#off"):
		return "nat"
	case l.T != nil:
		switch u := types.Unalias(l.T).Underlying().(type) {
		case *types.Pointer, *types.Map:
			return "ref"
		case *types.Basic:
			if u.Info()&types.IsUnsigned != 0 {
				return "nat"
			}
		}
	}
	return ""
}

// heapSortReg: sort of every heap family whose name has been generated.
var heapSortReg = map[string]Sort{}

// heapOwnerKey / heapLeafRef: allocation space of the objects a heap family is indexed by, and of the references it
// stores ("" = none / not a reference).
var heapOwnerKey = map[string]string{}
var heapLeafRef = map[string]string{}
var heapLeafT = map[string]types.Type{}

// exposeHeaps: allocation spaces in which writes to the given heap families can make new objects reachable.
func exposeHeaps(names []string) *exposure {
	e := &exposure{keys: map[string]bool{}}
	for _, n := range names {
		var x *exposure
		if r := heapLeafRef[n]; r != "" {
			// a reference leaf: the space it points into and whatever objects there reach
			kt := keyType[r]
			x = &exposure{keys: map[string]bool{r: true}}
			if kt != nil {
				var y *exposure
				if m, ok := kt.(*types.Map); ok {
					y = exposureOf(types.NewTuple(types.NewVar(0, nil, "", m.Key()), types.NewVar(0, nil, "", m.Elem())))
				} else {
					y = exposureOf(kt)
				}
				for k := range y.keys {
					x.keys[k] = true
				}
				x.all = y.all
			}
		} else if t := heapLeafT[n]; t != nil {
			x = exposureOf(t)
		}
		if x == nil {
			continue
		}
		for k := range x.keys {
			e.keys[k] = true
		}
		if x.all {
			e.all = true
		}
	}
	return e
}

// expose gives new watermarks to the spaces of e (every space when an interface of unknown dynamic type is reachable).
func (ex *Exec) expose(st *State, e *exposure) {
	if e.all {
		ex.bumpWM(st)
		return
	}
	ex.bumpKeys(st, e.keys)
}

func registerHeap(name string, t types.Type, path string) {
	if _, ok := heapLeafKind[name]; ok {
		return
	}
	heapLeafKind[name] = ""
	if _, isG := t.(globalObj); !isG {
		if strings.HasPrefix(name, "E_") {
			heapOwnerKey[name] = "E_" + heapKeyT(t)
		} else {
			heapOwnerKey[name] = "H_" + heapKeyT(t)
		}
	}
	for _, l := range Layout(t) {
		if l.Path == path {
			heapLeafKind[name] = leafKind(l)
			heapLeafRef[name] = l.Ref
			heapLeafT[name] = l.T
			if strings.HasPrefix(name, "E_") {
				heapSortReg[name] = ArrSort(SInt, ArrSort(SInt, l.Sort))
			} else {
				heapSortReg[name] = ArrSort(SInt, l.Sort)
			}
			return
		}
	}
}

func fieldHeapName(obj types.Type, path string) string {
	n := "H_" + heapKeyT(obj) + "_" + sanitize(path)
	registerHeap(n, obj, path)
	return n
}
func elemHeapName(el types.Type, path string) string {
	n := "E_" + heapKeyT(el) + "_" + sanitize(path)
	registerHeap(n, el, path)
	return n
}

// heapFacts assumes the range facts every value stored in heap symbol h satisfies (ids are below the watermark).
func (ex *Exec) heapFacts(name string, h *Term, wm *WMs) {
	kind := heapLeafKind[name]
	if kind == "" {
		return
	}
	ex.boundN++
	o := Bound(fmt.Sprintf("ho%d", ex.boundN), SInt)
	_, es := h.sort.splitArr()
	var v *Term
	vars := []*Term{o}
	if es.IsArray() {
		ks, _ := es.splitArr()
		k := Bound(fmt.Sprintf("hk%d", ex.boundN), ks)
		vars = append(vars, k)
		v = Select(Select(h, o), k)
	} else {
		v = Select(h, o)
	}
	if v.sort != SInt {
		return
	}
	body := Ge(v, Int(0))
	if ref := heapLeafRef[name]; kind == "ref" && ref != "" {
		// only rows of allocated objects are constrained: what lies above the watermark is unallocated space whose
		// contents must stay arbitrary, because objects allocated later (by callees under contract, by earlier loop
		// iterations) are read from there
		bound := Le(v, ex.wmGet(wm, ref))
		if owner := heapOwnerKey[name]; owner != "" {
			bound = Implies(Le(o, ex.wmGet(wm, owner)), bound)
		}
		body = And(body, bound)
	}
	ex.assumeRaw(Forall(vars, body, []*Term{v}))
}

// rowFacts: the same for a single fresh row / entry stored at one index of a heap.
func (ex *Exec) rowFacts(name string, row *Term, wm *WMs) {
	kind := heapLeafKind[name]
	if kind == "" {
		return
	}
	var v *Term
	var vars []*Term
	if row.sort.IsArray() {
		ks, _ := row.sort.splitArr()
		ex.boundN++
		k := Bound(fmt.Sprintf("hk%d", ex.boundN), ks)
		vars = []*Term{k}
		v = Select(row, k)
	} else {
		v = row
	}
	if v.sort != SInt {
		return
	}
	body := Ge(v, Int(0))
	if ref := heapLeafRef[name]; kind == "ref" && ref != "" {
		body = And(body, Le(v, ex.wmGet(wm, ref)))
	}
	if len(vars) > 0 {
		ex.assumeRaw(Forall(vars, body, []*Term{v}))
	} else {
		ex.assumeRaw(body)
	}
}

func mapKeyOf(t types.Type) string {
	return sanitize(types.TypeString(types.Unalias(t).Underlying(), nil))
}

// mapKeySort is the SMT sort of map keys (multi-leaf keys are packed into Int).
func mapKeySort(m *types.Map) Sort {
	ls := Layout(m.Key())
	if len(ls) == 1 {
		return ls[0].Sort
	}
	return SInt
}

func (ex *Exec) packKey(st *State, m *types.Map, k Val) *Term {
	ls := Layout(m.Key())
	if len(ls) == 1 {
		t := k.L[0]
		if t.sort != ls[0].Sort {
			if ls[0].Sort == SReal {
				t = ToReal(t)
			}
		}
		return t
	}
	if len(ls) == 0 {
		return Int(0)
	}
	fn := "key_" + heapKeyT(m.Key())
	kt := UF(fn, SInt, k.L...)
	keyAxioms(fn, ls)
	return kt
}

// keyAxioms declares the packing function of a multi-leaf map key type as a bijection (once per type).
func keyAxioms(fn string, ls []Leaf) {
	fn = sanitize(fn)
	if _, ok := TS.axioms[fn]; ok {
		return
	}
	var decl, names, invs []string
	for i, l := range ls {
		decl = append(decl, fmt.Sprintf("(x%d %s)", i, l.Sort))
		names = append(names, fmt.Sprintf("x%d", i))
		DeclFun(fmt.Sprintf("%s_inv%d", fn, i), []Sort{SInt}, l.Sort)
	}
	var srts []Sort
	for _, l := range ls {
		srts = append(srts, l.Sort)
	}
	DeclFun(fn, srts, SInt)
	app := fmt.Sprintf("(%s %s)", fn, strings.Join(names, " "))
	var eqs []string
	for i := range ls {
		eqs = append(eqs, fmt.Sprintf("(= (%s_inv%d %s) x%d)", fn, i, app, i))
		invs = append(invs, fmt.Sprintf("(%s_inv%d k)", fn, i))
	}
	ax := fmt.Sprintf("(assert (forall (%s) (! (and %s) :pattern (%s))))", strings.Join(decl, " "), strings.Join(eqs, " "), app)
	ax += fmt.Sprintf("\n(assert (forall ((k Int)) (! (= (%s %s) k) :pattern (%s))))", fn, strings.Join(invs, " "), invs[0])
	TS.axioms[fn] = ax
	for i := range ls {
		// make sure the axiom is emitted when only an inverse occurs
		TS.axioms[fmt.Sprintf("%s_inv%d", fn, i)] = "; see " + fn
	}
}

func (ex *Exec) unpackKey(m *types.Map, kt *Term) Val {
	ls := Layout(m.Key())
	if len(ls) == 1 {
		return Val{T: m.Key(), L: []*Term{kt}}
	}
	fn := "key_" + heapKeyT(m.Key())
	keyAxioms(fn, ls)
	v := Val{T: m.Key(), L: make([]*Term, len(ls))}
	for i, l := range ls {
		v.L[i] = UF(fmt.Sprintf("%s_inv%d", fn, i), l.Sort, kt)
	}
	return v
}

type mapHeaps struct {
	m    *types.Map
	key  string
	ks   Sort
	vals []Leaf
}

func mapOf(t types.Type) *mapHeaps {
	m := types.Unalias(t).Underlying().(*types.Map)
	return &mapHeaps{m: m, key: mapKeyOf(t), ks: mapKeySort(m), vals: Layout(m.Elem())}
}

func (mh *mapHeaps) domName() string {
	n := "MD_" + mh.key
	heapSortReg[n] = mh.domSort()
	heapOwnerKey[n] = "M_" + mh.key
	return n
}
func (mh *mapHeaps) lenName() string {
	n := "ML_" + mh.key
	if _, ok := heapLeafKind[n]; !ok {
		heapLeafKind[n] = "nat"
	}
	heapSortReg[n] = ArrSort(SInt, SInt)
	heapOwnerKey[n] = "M_" + mh.key
	return n
}
func (mh *mapHeaps) valName(l Leaf) string {
	n := "MV_" + mh.key + "_" + sanitize(l.Path)
	if _, ok := heapLeafKind[n]; !ok {
		heapLeafKind[n] = leafKind(l)
	}
	heapSortReg[n] = mh.valSort(l)
	heapOwnerKey[n] = "M_" + mh.key
	heapLeafRef[n] = l.Ref
	heapLeafT[n] = l.T
	return n
}
func (mh *mapHeaps) domSort() Sort        { return ArrSort(SInt, ArrSort(mh.ks, SBool)) }
func (mh *mapHeaps) valSort(l Leaf) Sort  { return ArrSort(SInt, ArrSort(mh.ks, l.Sort)) }
func (mh *mapHeaps) names() []string {
	out := []string{mh.domName(), mh.lenName()}
	for _, l := range mh.vals {
		out = append(out, mh.valName(l))
	}
	return out
}

func (ex *Exec) mapDom(st *State, mt types.Type, m *Term) *Term {
	mh := mapOf(mt)
	return Select(ex.heapGet(st, mh.domName(), mh.domSort()), m)
}

func (ex *Exec) mapHas(st *State, mt types.Type, m *Term, k *Term) *Term {
	return And(Ne(m, Int(0)), Select(ex.mapDom(st, mt, m), k))
}

func (ex *Exec) mapLen(st *State, mt types.Type, m *Term) *Term {
	mh := mapOf(mt)
	return Select(ex.heapGet(st, mh.lenName(), ArrSort(SInt, SInt)), m)
}

// mapGet returns the stored value (zero value when absent).
func (ex *Exec) mapGet(st *State, mt types.Type, m *Term, k *Term) Val {
	mh := mapOf(mt)
	has := ex.mapHas(st, mt, m, k)
	v := Val{T: mh.m.Elem(), L: make([]*Term, len(mh.vals))}
	for i, l := range mh.vals {
		row := Select(ex.heapGet(st, mh.valName(l), mh.valSort(l)), m)
		v.L[i] = Ite(has, Select(row, k), zeroTerm(l))
	}
	ex.refFacts(st, v)
	return v
}

func (ex *Exec) mapSet(st *State, mt types.Type, m *Term, k *Term, v Val) {
	mh := mapOf(mt)
	d := ex.heapGet(st, mh.domName(), mh.domSort())
	ln := ex.heapGet(st, mh.lenName(), ArrSort(SInt, SInt))
	row := Select(d, m)
	had := Select(row, k)
	ex.heapSet(st, mh.lenName(), Store(ln, m, Ite(had, Select(ln, m), Add(Select(ln, m), Int(1)))))
	ex.heapSet(st, mh.domName(), Store(d, m, Store(row, k, True)))
	for i, l := range mh.vals {
		h := ex.heapGet(st, mh.valName(l), mh.valSort(l))
		ex.heapSet(st, mh.valName(l), Store(h, m, Store(Select(h, m), k, v.L[i])))
	}
}

func (ex *Exec) mapDelete(st *State, mt types.Type, m *Term, k *Term) {
	mh := mapOf(mt)
	d := ex.heapGet(st, mh.domName(), mh.domSort())
	ln := ex.heapGet(st, mh.lenName(), ArrSort(SInt, SInt))
	row := Select(d, m)
	had := And(Ne(m, Int(0)), Select(row, k))
	ex.heapSet(st, mh.lenName(), Store(ln, m, Ite(had, Sub(Select(ln, m), Int(1)), Select(ln, m))))
	ex.heapSet(st, mh.domName(), Store(d, m, Store(row, k, False)))
}

// newMap allocates an empty map.
func (ex *Exec) newMap(st *State, mt types.Type) *Term {
	mh := mapOf(mt)
	id := ex.alloc(st, "M_"+mh.key)
	d := ex.heapGet(st, mh.domName(), mh.domSort())
	ex.heapSet(st, mh.domName(), Store(d, id, ConstArr(ArrSort(mh.ks, SBool), False)))
	ln := ex.heapGet(st, mh.lenName(), ArrSort(SInt, SInt))
	ex.heapSet(st, mh.lenName(), Store(ln, id, Int(0)))
	return id
}

// alloc takes the next id of allocation space key.
func (ex *Exec) alloc(st *State, key string) *Term {
	id := Add(ex.wm(st, key), Int(1))
	st.wm.m[key] = id
	ex.markFresh(id)
	if ex.wlog != nil {
		ex.wlog.logAlloc(key)
	}
	return id
}

// bumpWM: a callee that is not executed may have allocated objects in any space (nothing is known about what it exposes).
func (ex *Exec) bumpWM(st *State) {
	wmGenSeq++
	st.wm = &WMs{m: map[string]*Term{}, gen: &wmGen{id: wmGenSeq, prev: st.wm.clone()}}
	if ex.wlog != nil {
		ex.wlog.allocAll = true
	}
}

// bumpKeys: objects of the given allocation spaces may have been allocated.
func (ex *Exec) bumpKeys(st *State, keys map[string]bool) {
	for _, k := range sortedKeys(keys) {
		old := ex.wm(st, k)
		nw := Fresh("wm_"+k, SInt)
		st.wm.m[k] = nw
		ex.assume(st, Ge(nw, old))
		if ex.wlog != nil {
			ex.wlog.logAlloc(k)
		}
	}
}

// load reads the value at a location.
func (ex *Exec) load(st *State, loc *Loc) Val {
	switch loc.Kind {
	case locCell:
		v, ok := st.cells[loc.Cell]
		if !ok {
			v = ZeroVal(loc.Cell.T)
			st.cells[loc.Cell] = v
		}
		if loc.Prefix == "" {
			return v
		}
		lo, hi := subRange(loc.Cell.T, loc.Prefix)
		return Val{T: loc.T, L: v.L[lo:hi]}
	case locField:
		ls := Layout(loc.T)
		v := Val{T: loc.T, L: make([]*Term, len(ls))}
		for i, l := range ls {
			h := ex.heapGet(st, fieldHeapName(loc.Obj, loc.Prefix+l.Path), ArrSort(SInt, l.Sort))
			v.L[i] = Select(h, loc.Base)
		}
		ex.refFacts(st, v)
		return v
	case locElem:
		ls := Layout(loc.T)
		v := Val{T: loc.T, L: make([]*Term, len(ls))}
		for i, l := range ls {
			h := ex.heapGet(st, elemHeapName(loc.Obj, loc.Prefix+l.Path), ArrSort(SInt, ArrSort(SInt, l.Sort)))
			v.L[i] = Select(shiftRow(Select(h, loc.Base), loc.Off), loc.Idx)
		}
		ex.refFacts(st, v)
		return v
	}
	panic("load: bad loc")
}

// refFacts: a reference read from an object that exists points to an object that exists (heap well-formedness, stated
// as a ground fact at each read so that it does not depend on instantiating the quantified range axioms of the heaps).
func (ex *Exec) refFacts(st *State, v Val) {
	ls := Layout(v.T)
	n := 0
	for i, l := range ls {
		if l.Ref == "" || i >= len(v.L) {
			continue
		}
		if n++; n > 24 {
			return // whole-struct copies: leave the rest to the quantified axioms
		}
		t := v.L[i]
		if t.op == "int" {
			continue
		}
		ex.assume(st, And(Ge(t, Int(0)), Le(t, ex.wm(st, l.Ref))))
	}
}

func (ex *Exec) store(st *State, loc *Loc, v Val) {
	if v.Loc != nil && v.Loc.Kind == locCell && loc.Kind != locCell {
		unsupported("address of a local stored into the heap (%s)", v.Loc.Cell.Name)
	}
	ls := Layout(loc.T)
	if len(ls) != len(v.L) {
		panic(fmt.Sprintf("store: layout mismatch %v (%d) vs %v (%d)", loc.T, len(ls), v.T, len(v.L)))
	}
	switch loc.Kind {
	case locCell:
		if ex.wlog != nil {
			ex.wlog.cells[loc.Cell] = true
		}
		if loc.Prefix == "" {
			st.cells[loc.Cell] = Val{T: loc.Cell.T, L: v.L, Loc: v.Loc, Clo: v.Clo}
			return
		}
		cur, ok := st.cells[loc.Cell]
		if !ok {
			cur = ZeroVal(loc.Cell.T)
		}
		lo, hi := subRange(loc.Cell.T, loc.Prefix)
		nl := append([]*Term{}, cur.L...)
		copy(nl[lo:hi], v.L)
		st.cells[loc.Cell] = Val{T: loc.Cell.T, L: nl}
	case locField:
		for i, l := range ls {
			name := fieldHeapName(loc.Obj, loc.Prefix+l.Path)
			h := ex.heapGet(st, name, ArrSort(SInt, l.Sort))
			ex.heapSet(st, name, Store(h, loc.Base, v.L[i]))
		}
	case locElem:
		for i, l := range ls {
			name := elemHeapName(loc.Obj, loc.Prefix+l.Path)
			h := ex.heapGet(st, name, ArrSort(SInt, ArrSort(SInt, l.Sort)))
			ex.heapSet(st, name, Store(h, loc.Base, Store(Select(h, loc.Base), absIdx(loc), v.L[i])))
		}
	}
}

func absIdx(loc *Loc) *Term {
	if loc.Off == nil {
		return loc.Idx
	}
	return Add(loc.Off, loc.Idx)
}

// shiftRow views a backing-array row from a slice offset: select(shiftRow(r,o), j) = select(r, o+j).
// Keeping the index of the outer select free of arithmetic lets E-matching instantiate quantified
// facts about slice elements.
func shiftRow(row *Term, off *Term) *Term {
	if off == nil || isZero(off) {
		return row
	}
	is, es := row.sort.splitArr()
	name := "shift_" + sanitize(string(es))
	if _, ok := TS.axioms[name]; !ok {
		DeclFun(name, []Sort{row.sort, SInt}, row.sort)
		TS.axioms[name] = fmt.Sprintf("(assert (forall ((a %s) (o Int) (j %s)) (! (= (select (%s a o) j) (select a (+ o j))) :pattern ((select (%s a o) j)))))", row.sort, is, name, name)
	}
	return App(name, row.sort, row, off)
}

// derefLoc turns a pointer value into a location.
func (ex *Exec) derefLoc(st *State, p Val, pos token.Pos) *Loc {
	if p.Loc != nil {
		return p.Loc
	}
	et := derefType(p.T)
	if et == nil {
		panic(fmt.Sprintf("derefLoc: not a pointer: %v", p.T))
	}
	ex.nilCheck(st, p.S(), pos)
	return &Loc{Kind: locField, Base: p.S(), Obj: et, T: et}
}

func (ex *Exec) nilCheck(st *State, p *Term, pos token.Pos) {
	if ex.checked["nil"] {
		ex.oblige(st, "nopanic", "nopanic/nil", Ne(p, Int(0)), pos)
	}
	ex.assume(st, Ne(p, Int(0)))
}

// typeFacts assumes range facts for a freshly introduced value.
func (ex *Exec) typeFacts(st *State, v Val) {
	ls := Layout(v.T)
	for i, l := range ls {
		t := v.L[i]
		switch {
		case strings.HasSuffix(l.Path, "#len") || strings.HasSuffix(l.Path, "#off"):
			ex.assume(st, Ge(t, Int(0)))
		case strings.HasSuffix(l.Path, "#arr"):
			if l.Ref != "" {
				ex.assume(st, And(Ge(t, Int(0)), Le(t, ex.wm(st, l.Ref))))
			} else {
				ex.assume(st, Ge(t, Int(0)))
			}
			if i+2 < len(v.L) {
				ex.assume(st, Implies(Eq(t, Int(0)), Eq(v.L[i+2], Int(0))))
			}
		case l.T != nil:
			switch u := types.Unalias(l.T).Underlying().(type) {
			case *types.Basic:
				if u.Info()&types.IsUnsigned != 0 {
					ex.assume(st, Ge(t, Int(0)))
				}
				if u.Info()&types.IsInteger != 0 {
					if lo, hi, ok := intRange(u); ok && (ex.arith || ex.ranged || u.Kind() == types.Int32 || u.Kind() == types.Uint32 || u.Kind() == types.Uint8 || u.Kind() == types.Int8 || u.Kind() == types.Int16 || u.Kind() == types.Uint16) {
						ex.assume(st, And(Ge(t, lo), Le(t, hi)))
					}
				}
			case *types.Pointer, *types.Map:
				if l.Ref != "" {
					ex.assume(st, And(Ge(t, Int(0)), Le(t, ex.wm(st, l.Ref))))
				} else {
					ex.assume(st, Ge(t, Int(0)))
				}
			}
		}
	}
}

func pow2(n uint) *Term {
	b := new(bigInt).Lsh(bigOne, n)
	return IntBig(b)
}

func intRange(u *types.Basic) (*Term, *Term, bool) {
	bits := uint(64)
	switch u.Kind() {
	case types.Int8, types.Uint8:
		bits = 8
	case types.Int16, types.Uint16:
		bits = 16
	case types.Int32, types.Uint32:
		bits = 32
	case types.Int, types.Int64, types.Uint, types.Uint64, types.Uintptr:
		bits = 64
	default:
		return nil, nil, false
	}
	if u.Info()&types.IsUnsigned != 0 {
		return Int(0), Sub(pow2(bits), Int(1)), true
	}
	return Neg(pow2(bits - 1)), Sub(pow2(bits-1), Int(1)), true
}

// ---- frames ----

type Frame struct {
	fn      *ssa.Function
	regs    map[ssa.Value]Val
	cells   map[*ssa.Alloc]*Cell
	free    []Val // closure bindings
	defers  []deferred
	outs    map[*ssa.BasicBlock]*State // state at end of block (before terminator edges)
	conds   map[*ssa.BasicBlock]*Term  // If condition at end of block
	rets    []retPoint
	ranges  map[*ssa.Range]*rangeIter
	depth   int
	con     *Contract // contract whose loop invariants apply (top frame only)
	params  map[string]Val
	loopOrd map[*ssa.BasicBlock]int
	env0    *SpecEnv
}

type deferred struct {
	call *ssa.CallCommon
	args []Val
	fnv  Val
	pos  token.Pos
}

type retPoint struct {
	st   *State
	vals []Val
}

type rangeIter struct {
	mt    types.Type
	m     *Term
	seen  *Cell
	count *Cell
	str   bool
}

func (ex *Exec) newCell(name string, t types.Type, pos token.Pos) *Cell {
	ex.cellSeq++
	return &Cell{id: ex.cellSeq, Name: name, T: t, pos: int(pos)}
}

// execFunc runs fn from state st with the given arguments; returns merged return values and the exit state (nil if no normal return).
func (ex *Exec) execFunc(fn *ssa.Function, args []Val, free []Val, st *State, depth int, con *Contract) ([]Val, *State, *Frame) {
	if len(fn.Blocks) == 0 {
		panic("execFunc: no body: " + fn.String())
	}
	fr := &Frame{fn: fn, regs: map[ssa.Value]Val{}, cells: map[*ssa.Alloc]*Cell{}, free: free, outs: map[*ssa.BasicBlock]*State{}, conds: map[*ssa.BasicBlock]*Term{}, ranges: map[*ssa.Range]*rangeIter{}, depth: depth, con: con, params: map[string]Val{}}
	for i, p := range fn.Params {
		fr.regs[p] = args[i]
		fr.params[p.Name()] = args[i]
	}
	if depth == 0 && con != nil {
		fr.env0 = ex.pendingEnv0
	}
	ex.stack = append(ex.stack, fn)
	defer func() { ex.stack = ex.stack[:len(ex.stack)-1] }()

	order, backEdges := rpo(fn)
	fr.loopOrd = loopOrdinals(fn, backEdges)
	isBack := func(from, to *ssa.BasicBlock) bool { return backEdges[[2]int{from.Index, to.Index}] }

	for _, b := range order {
		var in *State
		if b.Index == 0 {
			in = st
		} else {
			var edges []*State
			for _, p := range b.Preds {
				if isBack(p, b) {
					continue
				}
				es := ex.edgeState(fr, p, b)
				if es != nil {
					edges = append(edges, es)
				}
			}
			if len(edges) == 0 {
				continue // unreachable
			}
			in = ex.merge(edges)
		}
		if in.guard == False {
			continue
		}
		if _, isHeader := fr.loopOrd[b]; isHeader {
			in = ex.loopHead(fr, b, in, backEdges)
		}
		out := ex.execBlock(fr, b, in)
		if out != nil {
			fr.outs[b] = out
			// back edges leaving this block: check invariants
			for _, s := range b.Succs {
				if isBack(b, s) {
					es := ex.edgeState(fr, b, s)
					if es != nil && es.guard != False {
						ex.loopBack(fr, s, es)
					}
				}
			}
		}
	}
	// merge returns
	if len(fr.rets) == 0 {
		return nil, nil, fr
	}
	var sts []*State
	for _, r := range fr.rets {
		sts = append(sts, r.st)
	}
	out := ex.merge(sts)
	nres := len(fr.rets[0].vals)
	res := make([]Val, nres)
	for i := 0; i < nres; i++ {
		v := fr.rets[len(fr.rets)-1].vals[i]
		for j := len(fr.rets) - 2; j >= 0; j-- {
			v = IteVal(fr.rets[j].st.guard, fr.rets[j].vals[i], v)
		}
		res[i] = v
	}
	return res, out, fr
}

// edgeState returns the state flowing along edge p->b.
func (ex *Exec) edgeState(fr *Frame, p, b *ssa.BasicBlock) *State {
	ps := fr.outs[p]
	if ps == nil {
		return nil
	}
	g := ps.guard
	if _, ok := p.Instrs[len(p.Instrs)-1].(*ssa.If); ok {
		c := fr.conds[p]
		if p.Succs[0] == b && p.Succs[1] == b {
			// both edges
		} else if p.Succs[0] == b {
			g = And(g, c)
		} else {
			g = And(g, Not(c))
		}
	}
	if g == False {
		return nil
	}
	ns := ps.clone()
	ns.guard = g
	return ns
}

func (ex *Exec) merge(in []*State) *State {
	if len(in) == 1 {
		return in[0]
	}
	out := &State{cells: map[*Cell]Val{}, heap: map[string]*Term{}}
	gs := make([]*Term, len(in))
	for i, s := range in {
		gs[i] = s.guard
	}
	out.guard = Or(gs...)
	// heaps
	names := map[string]bool{}
	for _, s := range in {
		for n := range s.heap {
			names[n] = true
		}
	}
	for n := range names {
		var cur *Term
		for i := len(in) - 1; i >= 0; i-- {
			t, ok := in[i].heap[n]
			if !ok {
				t = ex.heapDefault(in[i].hv, n, ex.heapSrt[n])
			}
			if cur == nil {
				cur = t
			} else {
				cur = Ite(in[i].guard, t, cur)
			}
		}
		out.heap[n] = cur
	}
	// cells
	cs := map[*Cell]bool{}
	for _, s := range in {
		for c := range s.cells {
			cs[c] = true
		}
	}
	for c := range cs {
		var cur *Val
		for i := len(in) - 1; i >= 0; i-- {
			v, ok := in[i].cells[c]
			if !ok {
				continue
			}
			if cur == nil {
				vv := v
				cur = &vv
			} else {
				vv := IteVal(in[i].guard, v, *cur)
				cur = &vv
			}
		}
		out.cells[c] = *cur
	}
	// watermarks
	sameGen := true
	for _, s := range in {
		if s.wm.gen != in[0].wm.gen {
			sameGen = false
		}
	}
	if sameGen {
		out.wm = &WMs{m: map[string]*Term{}, gen: in[0].wm.gen}
		keys := map[string]bool{}
		for _, s := range in {
			for k := range s.wm.m {
				keys[k] = true
			}
		}
		for _, k := range sortedKeys(keys) {
			var cur *Term
			for i := len(in) - 1; i >= 0; i-- {
				t := ex.wmGet(in[i].wm, k)
				if cur == nil {
					cur = t
				} else {
					cur = Ite(in[i].guard, t, cur)
				}
			}
			out.wm.m[k] = cur
		}
	} else {
		wmGenSeq++
		g := &wmGen{id: wmGenSeq}
		for _, s := range in {
			g.merge = append(g.merge, wmEdge{s.guard, s.wm.clone()})
		}
		out.wm = &WMs{m: map[string]*Term{}, gen: g}
	}
	same := true
	for _, s := range in {
		if s.hv != in[0].hv {
			same = false
		}
	}
	if same {
		out.hv = in[0].hv
	} else {
		hvSeq++
		n := &hvNode{id: hvSeq}
		for _, s := range in {
			n.merge = append(n.merge, hvEdge{s.guard, s.hv})
		}
		out.hv = n
	}
	return out
}

// rpo computes a reverse post-order of the CFG and the set of back edges.
func rpo(fn *ssa.Function) ([]*ssa.BasicBlock, map[[2]int]bool) {
	back := map[[2]int]bool{}
	state := make([]int, len(fn.Blocks)) // 0 unvisited, 1 on stack, 2 done
	var post []*ssa.BasicBlock
	var dfs func(b *ssa.BasicBlock)
	dfs = func(b *ssa.BasicBlock) {
		state[b.Index] = 1
		for _, s := range b.Succs {
			switch state[s.Index] {
			case 0:
				dfs(s)
			case 1:
				back[[2]int{b.Index, s.Index}] = true
			}
		}
		state[b.Index] = 2
		post = append(post, b)
	}
	dfs(fn.Blocks[0])
	// Recover block (fn.Recover) is ignored.
	out := make([]*ssa.BasicBlock, len(post))
	for i, b := range post {
		out[len(post)-1-i] = b
	}
	// A plain DFS post-order reversal is a topological order of the DAG without back edges.
	return out, back
}

// loopOrdinals numbers loop headers by source position order (1-based).
func loopOrdinals(fn *ssa.Function, back map[[2]int]bool) map[*ssa.BasicBlock]int {
	hs := map[*ssa.BasicBlock]bool{}
	for e := range back {
		hs[fn.Blocks[e[1]]] = true
	}
	type hp struct {
		b   *ssa.BasicBlock
		pos token.Pos
	}
	var list []hp
	for h := range hs {
		list = append(list, hp{h, headerPos(h)})
	}
	sort.Slice(list, func(i, j int) bool {
		if list[i].pos != list[j].pos {
			return list[i].pos < list[j].pos
		}
		return list[i].b.Index < list[j].b.Index
	})
	out := map[*ssa.BasicBlock]int{}
	for i, x := range list {
		out[x.b] = i + 1
	}
	return out
}

// headerPos approximates the source position of a loop by the smallest valid position in its header
// or, failing that, in its body blocks.
func headerPos(h *ssa.BasicBlock) token.Pos {
	best := token.NoPos
	upd := func(p token.Pos) {
		if p.IsValid() && (best == token.NoPos || p < best) {
			best = p
		}
	}
	for _, ins := range h.Instrs {
		upd(ins.Pos())
		if v, ok := ins.(ssa.Value); ok {
			_ = v
		}
	}
	if best != token.NoPos {
		return best
	}
	// BFS over successors, bounded
	seen := map[*ssa.BasicBlock]bool{h: true}
	q := []*ssa.BasicBlock{h}
	for len(q) > 0 && best == token.NoPos {
		b := q[0]
		q = q[1:]
		for _, s := range b.Succs {
			if seen[s] {
				continue
			}
			seen[s] = true
			for _, ins := range s.Instrs {
				upd(ins.Pos())
			}
			q = append(q, s)
		}
	}
	return best
}

// loopBody returns the blocks of the natural loop(s) with header h.
func loopBody(fn *ssa.Function, h *ssa.BasicBlock, back map[[2]int]bool) map[*ssa.BasicBlock]bool {
	body := map[*ssa.BasicBlock]bool{h: true}
	var work []*ssa.BasicBlock
	for e := range back {
		if e[1] == h.Index {
			b := fn.Blocks[e[0]]
			if !body[b] {
				body[b] = true
				work = append(work, b)
			}
		}
	}
	for len(work) > 0 {
		b := work[len(work)-1]
		work = work[:len(work)-1]
		for _, p := range b.Preds {
			if !body[p] {
				body[p] = true
				work = append(work, p)
			}
		}
	}
	return body
}

type loopInfo struct {
	ord     int
	invs    []*Clause
	pre     *State // state on entry (before havoc), for old-in-loop
	seenPre map[*Cell]Val
}

// discover runs the loop body in dry mode to collect the cells and heaps it writes.
func (ex *Exec) discover(fr *Frame, h *ssa.BasicBlock, in *State, back map[[2]int]bool) *writeLog {
	body := loopBody(fr.fn, h, back)
	saveA, saveO, saveF := len(ex.assumps), len(ex.obligs), TS.fresh
	_ = saveF
	saveLog := ex.wlog
	saveOrd := map[string]int{}
	for k, v := range ex.callOrd {
		saveOrd[k] = v
	}
	saveEmitted := map[string]bool{}
	for k, v := range ex.emitted {
		saveEmitted[k] = v
	}
	saveOpaque := map[string]bool{}
	for k, v := range ex.opaqueDone {
		saveOpaque[k] = v
	}
	defer func() { ex.callOrd = saveOrd; ex.emitted = saveEmitted; ex.opaqueDone = saveOpaque }()
	wl := &writeLog{cells: map[*Cell]bool{}, heaps: map[string]*heapW{}, ex: ex, freshFrom: ex.freshCtr}
	ex.wlog = wl
	ex.dry++
	// private copies of frame bookkeeping
	saveOuts, saveConds, saveRets, saveRegs := fr.outs, fr.conds, fr.rets, fr.regs
	fr.outs = map[*ssa.BasicBlock]*State{}
	fr.conds = map[*ssa.BasicBlock]*Term{}
	fr.regs = map[ssa.Value]Val{}
	for k, v := range saveRegs {
		fr.regs[k] = v
	}
	saveDef := fr.defers
	func() {
		defer func() {
			ex.dry--
			ex.wlog = saveLog
			fr.outs, fr.conds, fr.rets, fr.regs, fr.defers = saveOuts, saveConds, saveRets, saveRegs, saveDef
			ex.assumps = ex.assumps[:saveA]
			ex.obligs = ex.obligs[:saveO]
		}()
		order, _ := rpo(fr.fn)
		start := in.clone()
		for _, b := range order {
			if !body[b] {
				continue
			}
			var cur *State
			if b == h {
				cur = start
			} else {
				var edges []*State
				for _, p := range b.Preds {
					if back[[2]int{p.Index, b.Index}] || !body[p] {
						continue
					}
					if es := ex.edgeState(fr, p, b); es != nil {
						edges = append(edges, es)
					}
				}
				if len(edges) == 0 {
					continue
				}
				cur = ex.merge(edges)
			}
			if hOrd, isH := fr.loopOrd[b]; isH && b != h {
				_ = hOrd
				// nested loop: discover recursively and havoc what it writes
				inner := ex.discover(fr, b, cur, back)
				wl.absorb(inner)
				cur = ex.havocFor(cur, inner)
			}
			out := ex.execBlock(fr, b, cur)
			if out != nil {
				fr.outs[b] = out
			}
		}
	}()
	if saveLog != nil {
		saveLog.absorb(wl)
	}
	return wl
}

func (ex *Exec) havocFor(st *State, wl *writeLog) *State {
	ns := st.clone()
	if wl.allocAll {
		saveLog := ex.wlog
		ex.wlog = nil
		ex.bumpWM(ns)
		ex.wlog = saveLog
	} else if len(wl.allocKeys) > 0 {
		saveLog := ex.wlog
		ex.wlog = nil
		ex.bumpKeys(ns, wl.allocKeys)
		ex.wlog = saveLog
	}
	for c := range wl.cells {
		if c.T == nil {
			continue
		}
		if _, ok := ns.cells[c]; ok || true {
			v := FreshVal("c_"+c.Name, c.T)
			ns.cells[c] = v
			ex.typeFacts(ns, v)
		}
	}
	names := make([]string, 0, len(wl.heaps))
	for n := range wl.heaps {
		names = append(names, n)
	}
	sort.Strings(names)
	for _, n := range names {
		srt, ok := ex.heapSrt[n]
		if !ok {
			continue
		}
		ns.heap[n] = Fresh(n, srt)
		ex.heapFacts(n, ns.heap[n], ns.wm)
	}
	if wl.hvAll || len(wl.hvSet) > 0 {
		ns.hv = newHV(wl.hvAll, wl.hvSet, ns.wm, ns.hv)
	}
	return ns
}

var loopInfos = map[*Frame]map[*ssa.BasicBlock]*loopInfo{}

func (ex *Exec) loopHead(fr *Frame, h *ssa.BasicBlock, in *State, back map[[2]int]bool) *State {
	ex.impure++
	ord := fr.loopOrd[h]
	var invs []*Clause
	if fr.con != nil {
		invs = fr.con.LoopInv[ord]
	}
	li := &loopInfo{ord: ord, invs: invs, pre: in}
	if loopInfos[fr] == nil {
		loopInfos[fr] = map[*ssa.BasicBlock]*loopInfo{}
	}
	loopInfos[fr][h] = li
	// init obligations
	if ex.dry == 0 {
		for i, c := range invs {
			env := ex.loopEnv(fr, h, in, li)
			g := ex.evalBool(env, c)
			name := fmt.Sprintf("loop%d/inv#%s/init", ord, clauseName(c, i))
			ex.oblige(in, "loopinit", name, g, token.NoPos).Props = c.Props
		}
	}
	wl := ex.discover(fr, h, in, back)
	mark := TS.fresh
	ns := ex.havocFor(in, wl)
	// second round from the havocked state: which heap indices are written, and are they loop-invariant?
	wl2 := ex.discover(fr, h, ns, back)
	for n, w := range wl2.heaps {
		if w.whole || len(w.idx) == 0 || len(w.idx) > 8 {
			continue
		}
		if w1 := wl.heaps[n]; w1 == nil || w1.whole {
			continue
		}
		inv := true
		for _, ix := range w.idx {
			if symsAfter(ix, mark, map[int]bool{}) {
				inv = false
				break
			}
		}
		srt, ok := ex.heapSrt[n]
		if !inv || !ok {
			continue
		}
		pre, ok2 := in.heap[n]
		if !ok2 {
			pre = Sym(n+"@0", srt)
		}
		_, es := srt.splitArr()
		cur := pre
		for _, ix := range w.idx {
			row := Fresh(n+"_at", es)
			ex.rowFacts(n, row, ns.wm)
			cur = Store(cur, ix, row)
		}
		ns.heap[n] = cur
	}
	for i, c := range invs {
		_ = i
		env := ex.loopEnv(fr, h, ns, li)
		ex.assume(ns, ex.evalBool(env, c))
	}
	return ns
}

func (ex *Exec) loopBack(fr *Frame, h *ssa.BasicBlock, st *State) {
	li := loopInfos[fr][h]
	if li == nil || ex.dry > 0 {
		return
	}
	for i, c := range li.invs {
		env := ex.loopEnv(fr, h, st, li)
		g := ex.evalBool(env, c)
		name := fmt.Sprintf("loop%d/inv#%s/preserve", li.ord, clauseName(c, i))
		ex.oblige(st, "looppreserve", name, g, token.NoPos).Props = c.Props
	}
}

func clauseName(c *Clause, i int) string {
	if c.Label != "" {
		return c.Label
	}
	return fmt.Sprint(i + 1)
}
