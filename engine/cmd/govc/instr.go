package main

// Instruction semantics.

import (
	"fmt"
	"go/constant"
	"go/token"
	"go/types"
	"math/big"

	"golang.org/x/tools/go/ssa"
)

type bigInt = big.Int

var bigOne = big.NewInt(1)

// execBlock executes the instructions of b in state in (which it owns); returns the state at the end,
// or nil if the block ends the path (return/panic).
func (ex *Exec) execBlock(fr *Frame, b *ssa.BasicBlock, in *State) *State {
	st := in
	for _, ins := range b.Instrs {
		if p := ins.Pos(); p.IsValid() {
			ex.curPos = p
		}
		switch x := ins.(type) {
		case *ssa.DebugRef:
		case *ssa.Alloc:
			ex.doAlloc(fr, st, x)
		case *ssa.Store:
			addr := ex.val(fr, st, x.Addr)
			v := ex.val(fr, st, x.Val)
			ex.store(st, ex.derefLoc(st, addr, x.Pos()), v)
		case *ssa.UnOp:
			fr.regs[x] = ex.doUnOp(fr, st, x)
		case *ssa.BinOp:
			fr.regs[x] = ex.doBinOp(fr, st, x)
		case *ssa.FieldAddr:
			fr.regs[x] = ex.doFieldAddr(fr, st, x)
		case *ssa.Field:
			sv := ex.val(fr, st, x.X)
			stt := types.Unalias(x.X.Type()).Underlying().(*types.Struct)
			f := stt.Field(x.Field)
			lo, hi := subRange(x.X.Type(), "."+f.Name())
			fr.regs[x] = Val{T: f.Type(), L: sv.L[lo:hi]}
		case *ssa.IndexAddr:
			fr.regs[x] = ex.doIndexAddr(fr, st, x)
		case *ssa.Index:
			fr.regs[x] = ex.doIndex(fr, st, x)
		case *ssa.Lookup:
			fr.regs[x] = ex.doLookup(fr, st, x)
		case *ssa.MapUpdate:
			m := ex.val(fr, st, x.Map)
			k := ex.val(fr, st, x.Key)
			v := ex.val(fr, st, x.Value)
			mt := x.Map.Type()
			if ex.checked["mapnil"] {
				ex.oblige(st, "nopanic", "nopanic/mapnil", Ne(m.S(), Int(0)), x.Pos())
			}
			ex.assume(st, Ne(m.S(), Int(0)))
			mm := types.Unalias(mt).Underlying().(*types.Map)
			ex.mapSet(st, mt, m.S(), ex.packKey(st, mm, k), v)
		case *ssa.MakeMap:
			fr.regs[x] = scalar(x.Type(), ex.newMap(st, x.Type()))
		case *ssa.MakeSlice:
			fr.regs[x] = ex.doMakeSlice(fr, st, x)
		case *ssa.Slice:
			fr.regs[x] = ex.doSlice(fr, st, x)
		case *ssa.MakeInterface:
			fr.regs[x] = ex.makeInterface(st, ex.val(fr, st, x.X), x.X.Type(), x.Type())
		case *ssa.ChangeInterface:
			v := ex.val(fr, st, x.X)
			fr.regs[x] = Val{T: x.Type(), L: v.L}
		case *ssa.ChangeType:
			v := ex.val(fr, st, x.X)
			fr.regs[x] = Val{T: x.Type(), L: v.L, Loc: v.Loc, Clo: v.Clo}
		case *ssa.Convert:
			fr.regs[x] = ex.doConvert(fr, st, x)
		case *ssa.MultiConvert:
			v := ex.val(fr, st, x.X)
			fr.regs[x] = Val{T: x.Type(), L: v.L}
		case *ssa.TypeAssert:
			fr.regs[x] = ex.doTypeAssert(fr, st, x)
		case *ssa.Extract:
			tv := ex.val(fr, st, x.Tuple)
			tt := x.Tuple.Type().(*types.Tuple)
			lo, hi := subRange(tt, fmt.Sprintf("#%d", x.Index))
			_ = hi
			n := len(Layout(tt.At(x.Index).Type()))
			out := Val{T: tt.At(x.Index).Type(), L: tv.L[lo : lo+n]}
			if tv.Clo != nil && x.Index == 0 {
				out.Clo = tv.Clo
			}
			if tuplesLoc[tupleKey{fr, x.Tuple}] != nil {
				out.Loc = tuplesLoc[tupleKey{fr, x.Tuple}][x.Index]
			}
			fr.regs[x] = out
		case *ssa.Phi:
			fr.regs[x] = ex.doPhi(fr, st, b, x)
		case *ssa.MakeClosure:
			fn := x.Fn.(*ssa.Function)
			var binds []Val
			for _, bv := range x.Bindings {
				binds = append(binds, ex.val(fr, st, bv))
			}
			fr.regs[x] = Val{T: x.Type(), L: []*Term{ex.funcID(fn)}, Clo: &Closure{Fn: fn, Bindings: binds}}
		case *ssa.Range:
			ex.doRange(fr, st, x)
		case *ssa.Next:
			fr.regs[x] = ex.doNext(fr, st, x)
		case *ssa.Call:
			res := ex.doCall(fr, st, x.Common(), x, x.Pos())
			if st.guard == False {
				return nil
			}
			fr.regs[x] = res
		case *ssa.Defer:
			d := deferred{call: x.Common(), pos: x.Pos()}
			for _, a := range x.Call.Args {
				d.args = append(d.args, ex.val(fr, st, a))
			}
			if !x.Call.IsInvoke() {
				if _, isB := x.Call.Value.(*ssa.Builtin); !isB {
					d.fnv = ex.val(fr, st, x.Call.Value)
				}
			} else {
				d.fnv = ex.val(fr, st, x.Call.Value)
			}
			fr.defers = append(fr.defers, d)
		case *ssa.RunDefers:
			for i := len(fr.defers) - 1; i >= 0; i-- {
				d := fr.defers[i]
				ex.doDeferredCall(fr, st, d)
			}
		case *ssa.Go:
			unsupported("go statement")
		case *ssa.Select, *ssa.Send, *ssa.MakeChan:
			unsupported("channel operation")
		case *ssa.Panic:
			ex.oblige(st, "nopanic", "nopanic/explicit", False, x.Pos())
			return nil
		case *ssa.Jump:
			return st
		case *ssa.If:
			c := ex.val(fr, st, x.Cond)
			fr.conds[b] = c.S()
			return st
		case *ssa.Return:
			var vals []Val
			for _, r := range x.Results {
				vals = append(vals, ex.val(fr, st, r))
			}
			if fr.con != nil && fr.depth == 0 && ex.dry == 0 {
				for _, ca := range fr.con.Asserts {
					if ca.Callee != "$return" {
						continue
					}
					env := ex.newEnv(fr.con.PkgPath, st)
					if fr.env0 != nil {
						for k, v := range fr.env0.vars {
							env.vars[k] = v
						}
					}
					for k, v := range fr.params {
						env.vars[k] = v
					}
					env.frame = fr
					env.old = fr.env0
					env.wmPre = ex.entry.wm
					rt := resultType(fr.fn.Signature)
					env.setResults(rt, tupleVal(rt, vals...))
					g := ex.evalBool(env, ca.Clause)
					o := ex.oblige(st, "assert", fmt.Sprintf("assert:%s@return", clauseName(ca.Clause, 0)), g, x.Pos())
					o.Props = ca.Clause.Props
					ex.assume(st, g)
				}
			}
			fr.rets = append(fr.rets, retPoint{st: st, vals: vals})
			return nil
		case *ssa.SliceToArrayPointer:
			unsupported("slice to array pointer")
		default:
			unsupported("instruction %T", ins)
		}
	}
	return st
}

type tupleKey struct {
	fr *Frame
	v  ssa.Value
}

var tuplesLoc = map[tupleKey]map[int]*Loc{}

// val evaluates an SSA value operand.
func (ex *Exec) val(fr *Frame, st *State, v ssa.Value) Val {
	switch x := v.(type) {
	case *ssa.Const:
		return ex.constVal(x)
	case *ssa.Function:
		return Val{T: x.Type(), L: []*Term{ex.funcID(x)}, Clo: &Closure{Fn: x}}
	case *ssa.Global:
		// pointer to a package-level variable
		et := derefType(x.Type())
		name := "G_" + sanitize(x.Pkg.Pkg.Path()+"."+x.Name())
		return Val{T: x.Type(), L: []*Term{UF("addr_"+name, SInt)}, Loc: &Loc{Kind: locField, Base: Int(1), Obj: globalObj{name: name, T: et}, T: et}}
	case *ssa.Builtin:
		return Val{T: x.Type(), L: []*Term{Int(0)}}
	case *ssa.FreeVar:
		for i, fv := range fr.fn.FreeVars {
			if fv == x {
				if i < len(fr.free) {
					return fr.free[i]
				}
			}
		}
		panic("unbound free variable " + x.Name())
	}
	if r, ok := fr.regs[v]; ok {
		return r
	}
	panic(fmt.Sprintf("val: no value for %s (%T) in %s", v.Name(), v, fr.fn))
}

// globalObj is a pseudo type used to key heaps of package-level variables.
type globalObj struct {
	name string
	T    types.Type
}

func (g globalObj) Underlying() types.Type { return g.T.Underlying() }
func (g globalObj) String() string         { return g.name }

var funcIDs = map[*ssa.Function]int64{}

func (ex *Exec) funcID(fn *ssa.Function) *Term {
	id, ok := funcIDs[fn]
	if !ok {
		id = int64(len(funcIDs) + 1)
		funcIDs[fn] = id
	}
	return Int(1000000 + id)
}

func (ex *Exec) constVal(c *ssa.Const) Val {
	t := c.Type()
	if c.Value == nil {
		return ZeroVal(t)
	}
	switch c.Value.Kind() {
	case constant.Bool:
		return scalar(t, Bool(constant.BoolVal(c.Value)))
	case constant.String:
		return scalar(t, ex.eng.strLit(constant.StringVal(c.Value)))
	case constant.Int:
		bi, _ := new(big.Int).SetString(c.Value.ExactString(), 10)
		if b, ok := types.Unalias(t).Underlying().(*types.Basic); ok && b.Info()&types.IsFloat != 0 {
			return scalar(t, RealRat(new(big.Rat).SetInt(bi)))
		}
		return scalar(t, IntBig(bi))
	case constant.Float:
		r, ok := new(big.Rat).SetString(c.Value.ExactString())
		if !ok {
			f, _ := constant.Float64Val(c.Value)
			r = new(big.Rat).SetFloat64(f)
		}
		if b, ok := types.Unalias(t).Underlying().(*types.Basic); ok && b.Info()&types.IsInteger != 0 {
			return scalar(t, IntBig(new(big.Int).Quo(r.Num(), r.Denom())))
		}
		return scalar(t, RealRat(r))
	}
	unsupported("constant kind %v", c.Value.Kind())
	return Val{}
}

func (ex *Exec) doAlloc(fr *Frame, st *State, x *ssa.Alloc) {
	et := derefType(x.Type())
	if x.Heap && isStructLike(et) {
		// real heap object
		id := ex.alloc(st, "H_"+heapKeyT(et))
		ex.zeroObject(st, id, et)
		fr.regs[x] = Val{T: x.Type(), L: []*Term{id}}
		return
	}
	if x.Heap {
		if _, isArr := types.Unalias(et).Underlying().(*types.Array); isArr {
			// backing array for varargs / composite literals
			at := types.Unalias(et).Underlying().(*types.Array)
			id := ex.alloc(st, "E_"+heapKeyT(at.Elem()))
			fr.regs[x] = Val{T: x.Type(), L: []*Term{id}}
			// zero elements
			for _, l := range Layout(at.Elem()) {
				name := elemHeapName(at.Elem(), l.Path)
				h := ex.heapGet(st, name, ArrSort(SInt, ArrSort(SInt, l.Sort)))
				ex.heapSet(st, name, Store(h, id, ConstArr(ArrSort(SInt, l.Sort), zeroTerm(l))))
			}
			return
		}
	}
	if x.Heap && storedToHeap(x) {
		// a local whose address is stored into an object: model it as a real heap box
		id := ex.alloc(st, "H_"+heapKeyT(et))
		ex.zeroObject(st, id, et)
		fr.regs[x] = Val{T: x.Type(), L: []*Term{id}}
		return
	}
	c := fr.cells[x]
	if c == nil {
		c = ex.newCell(x.Comment, et, x.Pos())
		fr.cells[x] = c
	}
	st.cells[c] = ZeroVal(et)
	if ex.wlog != nil {
		ex.wlog.cells[c] = true
	}
	fr.regs[x] = Val{T: x.Type(), L: []*Term{Int(int64(-c.id))}, Loc: &Loc{Kind: locCell, Cell: c, T: et}}
}

func (ex *Exec) zeroObject(st *State, id *Term, t types.Type) {
	for _, l := range Layout(t) {
		name := fieldHeapName(t, l.Path)
		h := ex.heapGet(st, name, ArrSort(SInt, l.Sort))
		ex.heapSet(st, name, Store(h, id, zeroTerm(l)))
	}
}

func (ex *Exec) doFieldAddr(fr *Frame, st *State, x *ssa.FieldAddr) Val {
	p := ex.val(fr, st, x.X)
	loc := ex.derefLoc(st, p, x.Pos())
	stt := types.Unalias(derefType(x.X.Type())).Underlying().(*types.Struct)
	f := stt.Field(x.Field)
	nl := *loc
	nl.Prefix = loc.Prefix + "." + f.Name()
	nl.T = f.Type()
	ip := UF("interior", SInt, locBaseTerm(loc), Int(int64(len(nl.Prefix)*131+x.Field)))
	ex.assume(st, Ne(ip, Int(0))) // the address of a field of an existing object is never nil
	return Val{T: x.Type(), L: []*Term{ip}, Loc: &nl}
}

func locBaseTerm(l *Loc) *Term {
	switch l.Kind {
	case locCell:
		return Int(int64(-l.Cell.id))
	case locElem:
		return Add(Mul(l.Base, Int(1<<20)), absIdx(l))
	}
	return l.Base
}

func (ex *Exec) sliceParts(v Val) (arr, off, ln *Term) { return v.L[0], v.L[1], v.L[2] }

func (ex *Exec) boundsCheck(st *State, idx, ln *Term, pos token.Pos) {
	g := And(Ge(idx, Int(0)), Lt(idx, ln))
	if ex.checked["idx"] {
		ex.oblige(st, "nopanic", "nopanic/idx", g, pos)
	}
	ex.assume(st, g)
}

func (ex *Exec) doIndexAddr(fr *Frame, st *State, x *ssa.IndexAddr) Val {
	base := ex.val(fr, st, x.X)
	idx := ex.val(fr, st, x.Index).S()
	switch u := types.Unalias(x.X.Type()).Underlying().(type) {
	case *types.Slice:
		arr, off, ln := ex.sliceParts(base)
		ex.boundsCheck(st, idx, ln, x.Pos())
		loc := &Loc{Kind: locElem, Base: arr, Off: off, Idx: idx, Obj: u.Elem(), T: u.Elem()}
		ip := UF("interior", SInt, arr, Add(off, idx))
		ex.assume(st, Ne(ip, Int(0))) // the address of an element inside the bounds is never nil
		return Val{T: x.Type(), L: []*Term{ip}, Loc: loc}
	case *types.Pointer:
		at := types.Unalias(u.Elem()).Underlying().(*types.Array)
		ex.boundsCheck(st, idx, Int(at.Len()), x.Pos())
		if base.Loc != nil && base.Loc.Kind == locCell {
			unsupported("index into a local array variable")
		}
		loc := &Loc{Kind: locElem, Base: base.S(), Idx: idx, Obj: at.Elem(), T: at.Elem()}
		ip := UF("interior", SInt, base.S(), idx)
		ex.assume(st, Ne(ip, Int(0)))
		return Val{T: x.Type(), L: []*Term{ip}, Loc: loc}
	}
	unsupported("IndexAddr on %v", x.X.Type())
	return Val{}
}

func (ex *Exec) doIndex(fr *Frame, st *State, x *ssa.Index) Val {
	base := ex.val(fr, st, x.X)
	idx := ex.val(fr, st, x.Index).S()
	switch u := types.Unalias(x.X.Type()).Underlying().(type) {
	case *types.Basic: // string
		_ = u
		return scalar(x.Type(), UF("strbyte", SInt, base.S(), idx))
	case *types.Array:
		out := Val{T: u.Elem(), L: make([]*Term, len(base.L))}
		for i := range base.L {
			out.L[i] = Select(base.L[i], idx)
		}
		return out
	}
	unsupported("Index on %v", x.X.Type())
	return Val{}
}

func (ex *Exec) doLookup(fr *Frame, st *State, x *ssa.Lookup) Val {
	m := ex.val(fr, st, x.X)
	k := ex.val(fr, st, x.Index)
	if b, ok := types.Unalias(x.X.Type()).Underlying().(*types.Basic); ok && b.Info()&types.IsString != 0 {
		return scalar(x.Type(), UF("strbyte", SInt, m.S(), k.S()))
	}
	mt := x.X.Type()
	mm := types.Unalias(mt).Underlying().(*types.Map)
	kt := ex.packKey(st, mm, k)
	v := ex.mapGet(st, mt, m.S(), kt)
	if x.CommaOk {
		has := ex.mapHas(st, mt, m.S(), kt)
		return Val{T: x.Type(), L: append(append([]*Term{}, v.L...), has)}
	}
	return v
}

func (ex *Exec) doMakeSlice(fr *Frame, st *State, x *ssa.MakeSlice) Val {
	ln := ex.val(fr, st, x.Len).S()
	el := types.Unalias(x.Type()).Underlying().(*types.Slice).Elem()
	id := ex.alloc(st, "E_"+heapKeyT(el))
	for _, l := range Layout(el) {
		name := elemHeapName(el, l.Path)
		h := ex.heapGet(st, name, ArrSort(SInt, ArrSort(SInt, l.Sort)))
		ex.heapSet(st, name, Store(h, id, ConstArr(ArrSort(SInt, l.Sort), zeroTerm(l))))
	}
	ex.assume(st, Ge(ln, Int(0)))
	return Val{T: x.Type(), L: []*Term{id, Int(0), ln}}
}

func (ex *Exec) doSlice(fr *Frame, st *State, x *ssa.Slice) Val {
	base := ex.val(fr, st, x.X)
	var lo, hi *Term
	if x.Low != nil {
		lo = ex.val(fr, st, x.Low).S()
	} else {
		lo = Int(0)
	}
	switch u := types.Unalias(x.X.Type()).Underlying().(type) {
	case *types.Slice:
		arr, off, ln := ex.sliceParts(base)
		if x.High != nil {
			hi = ex.val(fr, st, x.High).S()
		} else {
			hi = ln
		}
		g := And(Ge(lo, Int(0)), Le(lo, hi))
		if x.High == nil {
			// hi = len: lo <= len
		} else {
			// hi <= cap: capacity is not modelled; require hi <= len when checked (conservative)
			if ex.checked["idx"] {
				g = And(g, Le(hi, ln))
			}
		}
		if ex.checked["idx"] {
			ex.oblige(st, "nopanic", "nopanic/slice", g, x.Pos())
		}
		ex.assume(st, g)
		return Val{T: x.Type(), L: []*Term{arr, Add(off, lo), Sub(hi, lo)}}
	case *types.Pointer:
		at := types.Unalias(u.Elem()).Underlying().(*types.Array)
		if x.High != nil {
			hi = ex.val(fr, st, x.High).S()
		} else {
			hi = Int(at.Len())
		}
		if base.Loc != nil && base.Loc.Kind == locCell {
			unsupported("slice of a local array variable")
		}
		return Val{T: x.Type(), L: []*Term{base.S(), lo, Sub(hi, lo)}}
	case *types.Basic:
		if x.High != nil {
			hi = ex.val(fr, st, x.High).S()
		} else {
			hi = UF("strlen", SInt, base.S())
		}
		return scalar(x.Type(), UF("substr", SInt, base.S(), lo, hi))
	}
	unsupported("Slice on %v", x.X.Type())
	return Val{}
}

func (ex *Exec) typeTag(t types.Type) *Term {
	return Int(ex.eng.typeID(t))
}

func (ex *Exec) makeInterface(st *State, v Val, from types.Type, to types.Type) Val {
	id := Fresh("iface", SInt)
	ex.assume(st, Gt(id, Int(0)))
	ex.assume(st, Eq(UF("typeof", SInt, id), ex.typeTag(from)))
	for i, l := range Layout(from) {
		ex.assume(st, Eq(UF("payload_"+heapKeyT(from)+"_"+sanitize(l.Path), l.Sort, id), v.L[i]))
	}
	if ex.ifaceVals == nil {
		ex.ifaceVals = map[*Term]Val{}
	}
	ex.ifaceVals[id] = v
	return Val{T: to, L: []*Term{id}}
}

func (ex *Exec) doTypeAssert(fr *Frame, st *State, x *ssa.TypeAssert) Val {
	v := ex.val(fr, st, x.X)
	id := v.S()
	var ok *Term
	var out Val
	if types.IsInterface(x.AssertedType) {
		ok = And(Ne(id, Int(0)), UF("implements_"+heapKeyT(x.AssertedType), SBool, UF("typeof", SInt, id)))
		out = Val{T: x.AssertedType, L: []*Term{id}}
	} else {
		ok = And(Ne(id, Int(0)), Eq(UF("typeof", SInt, id), ex.typeTag(x.AssertedType)))
		ls := Layout(x.AssertedType)
		out = Val{T: x.AssertedType, L: make([]*Term, len(ls))}
		for i, l := range ls {
			out.L[i] = UF("payload_"+heapKeyT(x.AssertedType)+"_"+sanitize(l.Path), l.Sort, id)
		}
		// what an existing interface value holds exists: references in the payload are allocated objects
		ex.typeFacts(st, out)
	}
	if x.CommaOk {
		// zero value when !ok
		z := ZeroVal(x.AssertedType)
		res := IteVal(ok, out, z)
		return Val{T: x.Type(), L: append(append([]*Term{}, res.L...), ok)}
	}
	if ex.checked["assert"] {
		ex.oblige(st, "nopanic", "nopanic/assert", ok, x.Pos())
	}
	ex.assume(st, ok)
	return out
}

func (ex *Exec) doPhi(fr *Frame, st *State, b *ssa.BasicBlock, x *ssa.Phi) Val {
	// select by incoming edge guard
	var cur *Val
	for i := len(x.Edges) - 1; i >= 0; i-- {
		p := b.Preds[i]
		es := ex.edgeState(fr, p, b)
		if es == nil {
			continue
		}
		var v Val
		if r, ok := fr.regs[x.Edges[i]]; ok {
			v = r
		} else {
			switch x.Edges[i].(type) {
			case *ssa.Const, *ssa.Function, *ssa.Global:
				v = ex.val(fr, st, x.Edges[i])
			default:
				continue // value from a back edge not yet computed
			}
		}
		if cur == nil {
			vv := v
			cur = &vv
		} else {
			vv := IteVal(es.guard, v, *cur)
			cur = &vv
		}
	}
	if cur == nil {
		return FreshVal("phi", x.Type())
	}
	return *cur
}

func (ex *Exec) doRange(fr *Frame, st *State, x *ssa.Range) {
	v := ex.val(fr, st, x.X)
	if _, ok := types.Unalias(x.X.Type()).Underlying().(*types.Map); !ok {
		it := &rangeIter{str: true}
		fr.ranges[x] = it
		fr.regs[x] = Val{T: x.Type(), L: []*Term{Int(0)}}
		unsupported("range over string")
		return
	}
	mh := mapOf(x.X.Type())
	it := fr.ranges[x]
	if it == nil {
		it = &rangeIter{mt: x.X.Type(), seen: ex.newCell("$seen", seenType{mh.ks}, x.Pos()), count: ex.newCell("$n", types.Typ[types.Int], x.Pos())}
		fr.ranges[x] = it
	}
	it.m = v.S()
	st.cells[it.seen] = Val{T: it.seen.T, L: []*Term{ConstArr(ArrSort(mh.ks, SBool), False)}}
	st.cells[it.count] = Val{T: it.count.T, L: []*Term{Int(0)}}
	fr.regs[x] = Val{T: x.Type(), L: []*Term{v.S()}}
}

// seenType is the pseudo type of a $seen cell.
type seenType struct{ ks Sort }

func (s seenType) Underlying() types.Type { return s }
func (s seenType) String() string         { return "seen" }

func init() {
	// make Layout handle seenType
}

func (ex *Exec) doNext(fr *Frame, st *State, x *ssa.Next) Val {
	if x.IsString {
		unsupported("range over string")
	}
	rg := x.Iter.(*ssa.Range)
	it := fr.ranges[rg]
	mh := mapOf(it.mt)
	m := ex.val(fr, st, rg).S()
	seen := st.cells[it.seen].L[0]
	k := Fresh("rk", mh.ks)
	ok := Fresh("rok", SBool)
	dom := Select(ex.heapGet(st, mh.domName(), mh.domSort()), m)
	ex.assume(st, Implies(ok, And(Ne(m, Int(0)), Select(dom, k), Not(Select(seen, k)))))
	ex.boundN++
	bk := Bound(fmt.Sprintf("k%d", ex.boundN), mh.ks)
	ex.assume(st, Implies(Not(ok), Or(Eq(m, Int(0)), Forall([]*Term{bk}, Implies(Select(dom, bk), Select(seen, bk))))))
	// values
	val := Val{T: mh.m.Elem(), L: make([]*Term, len(mh.vals))}
	for i, l := range mh.vals {
		val.L[i] = Select(Select(ex.heapGet(st, mh.valName(l), mh.valSort(l)), m), k)
	}
	ex.typeFacts(st, val)
	kv := ex.unpackKey(mh.m, k)
	ex.typeFacts(st, kv)
	// mark as seen
	if ex.wlog != nil {
		ex.wlog.cells[it.seen] = true
	}
	st.cells[it.seen] = Val{T: it.seen.T, L: []*Term{Ite(ok, Store(seen, k, True), seen)}}
	// $n counts the keys yielded so far; they are distinct members of the map, so $n <= len(m)
	// (facts valid when the body does not insert into / delete from the ranged map)
	cnt := Int(0)
	if cv, okc := st.cells[it.count]; okc {
		cnt = cv.S()
	}
	ncnt := Ite(ok, Add(cnt, Int(1)), cnt)
	st.cells[it.count] = Val{T: it.count.T, L: []*Term{ncnt}}
	if ex.wlog != nil {
		ex.wlog.cells[it.count] = true
	}
	ex.assume(st, And(Ge(cnt, Int(0)), Le(ncnt, ex.mapLen(st, it.mt, m))))
	out := Val{T: x.Type(), L: []*Term{ok}}
	tt := x.Type().(*types.Tuple)
	// tuple (ok, k, v): k and v have invalid type when unused (one dummy leaf each)
	if tt.At(1).Type() != types.Typ[types.Invalid] {
		out.L = append(out.L, kv.L...)
	} else {
		out.L = append(out.L, Int(0))
	}
	if tt.At(2).Type() != types.Typ[types.Invalid] {
		out.L = append(out.L, val.L...)
	} else {
		out.L = append(out.L, Int(0))
	}
	return out
}

func (ex *Exec) doUnOp(fr *Frame, st *State, x *ssa.UnOp) Val {
	v := ex.val(fr, st, x.X)
	switch x.Op {
	case token.MUL: // load
		loc := ex.derefLoc(st, v, x.Pos())
		r := ex.load(st, loc)
		if loc.Kind != locCell {
			ex.typeFacts(st, r)
		}
		r.T = x.Type()
		return r
	case token.NOT:
		return scalar(x.Type(), Not(v.S()))
	case token.SUB:
		return scalar(x.Type(), Neg(v.S()))
	case token.XOR:
		return scalar(x.Type(), Sub(Neg(v.S()), Int(1)))
	case token.ARROW:
		unsupported("channel receive")
	}
	unsupported("unary op %v", x.Op)
	return Val{}
}

func isFloatT(t types.Type) bool {
	b, ok := types.Unalias(t).Underlying().(*types.Basic)
	return ok && b.Info()&types.IsFloat != 0
}
func isStringT(t types.Type) bool {
	b, ok := types.Unalias(t).Underlying().(*types.Basic)
	return ok && b.Info()&types.IsString != 0
}
func isIntT(t types.Type) bool {
	b, ok := types.Unalias(t).Underlying().(*types.Basic)
	return ok && b.Info()&types.IsInteger != 0
}
func isUnsignedT(t types.Type) bool {
	b, ok := types.Unalias(t).Underlying().(*types.Basic)
	return ok && b.Info()&types.IsUnsigned != 0
}

func (ex *Exec) doBinOp(fr *Frame, st *State, x *ssa.BinOp) Val {
	a := ex.val(fr, st, x.X)
	b := ex.val(fr, st, x.Y)
	t := x.Type()
	xt := x.X.Type()
	switch x.Op {
	case token.EQL, token.NEQ:
		eq := ex.valEq(a, b)
		if x.Op == token.NEQ {
			eq = Not(eq)
		}
		return scalar(t, eq)
	}
	if isStringT(xt) {
		switch x.Op {
		case token.ADD:
			return scalar(t, ex.strConcat(a.S(), b.S()))
		case token.LSS:
			return scalar(t, UF("strlt", SBool, a.S(), b.S()))
		case token.GTR:
			return scalar(t, UF("strlt", SBool, b.S(), a.S()))
		case token.LEQ:
			return scalar(t, Not(UF("strlt", SBool, b.S(), a.S())))
		case token.GEQ:
			return scalar(t, Not(UF("strlt", SBool, a.S(), b.S())))
		}
	}
	as, bs := a.S(), b.S()
	switch x.Op {
	case token.LSS:
		return scalar(t, Lt(as, bs))
	case token.LEQ:
		return scalar(t, Le(as, bs))
	case token.GTR:
		return scalar(t, Gt(as, bs))
	case token.GEQ:
		return scalar(t, Ge(as, bs))
	case token.ADD:
		return scalar(t, ex.arithResult(st, x, Add(as, bs)))
	case token.SUB:
		return scalar(t, ex.arithResult(st, x, Sub(as, bs)))
	case token.MUL:
		return scalar(t, ex.arithResult(st, x, Mul(as, bs)))
	case token.QUO:
		if isFloatT(xt) {
			return scalar(t, RDiv(as, bs))
		}
		ex.oblige(st, "nopanic", "nopanic/div", Ne(bs, Int(0)), x.Pos())
		ex.assume(st, Ne(bs, Int(0)))
		return scalar(t, TDiv(as, bs))
	case token.REM:
		ex.oblige(st, "nopanic", "nopanic/div", Ne(bs, Int(0)), x.Pos())
		ex.assume(st, Ne(bs, Int(0)))
		return scalar(t, TRem(as, bs))
	case token.LAND, token.LOR:
	case token.AND, token.OR, token.XOR, token.SHL, token.SHR, token.AND_NOT:
		if x.Op == token.SHL && as.IsIntLit() && bs.IsIntLit() {
			return scalar(t, IntBig(new(big.Int).Lsh(as.IntVal(), uint(bs.IntVal().Int64()))))
		}
		if x.Op == token.SHL && bs.IsIntLit() {
			return scalar(t, ex.arithResult(st, x, Mul(as, IntBig(new(big.Int).Lsh(bigOne, uint(bs.IntVal().Int64()))))))
		}
		if x.Op == token.SHR && bs.IsIntLit() && isUnsignedT(xt) {
			return scalar(t, EDiv(as, IntBig(new(big.Int).Lsh(bigOne, uint(bs.IntVal().Int64())))))
		}
		r := UF("bitop_"+fmt.Sprint(int(x.Op)), SInt, as, bs)
		return scalar(t, r)
	}
	unsupported("binary op %v on %v", x.Op, xt)
	return Val{}
}

// arithResult applies overflow policy to an integer result.
func (ex *Exec) arithResult(st *State, x *ssa.BinOp, r *Term) *Term {
	t := x.Type()
	if !isIntT(t) {
		return r
	}
	u := types.Unalias(t).Underlying().(*types.Basic)
	lo, hi, ok := intRange(u)
	if !ok {
		return r
	}
	if ex.arith || (ex.arithMul && x.Op == token.MUL) {
		ex.oblige(st, "overflow", "overflow", And(Ge(r, lo), Le(r, hi)), x.Pos())
		ex.assume(st, And(Ge(r, lo), Le(r, hi)))
	} else if ex.ranged {
		ex.assume(st, And(Ge(r, lo), Le(r, hi)))
	} else if x.Op == token.SUB && u.Info()&types.IsUnsigned != 0 {
		// unsigned subtraction wraps in Go, and "a - b" with a < b is the usual way an unsigned value goes wrong
		// (cap - 1 with cap == 0): model exactly that case; additions and products stay mathematical
		r = Ite(Lt(r, Int(0)), Add(r, Add(hi, Int(1))), r)
	}
	return r
}

func (ex *Exec) strConcat(a, b *Term) *Term {
	if a == ex.eng.strLit("") {
		return b
	}
	if b == ex.eng.strLit("") {
		return a
	}
	return UF("strcat", SInt, a, b)
}

func (ex *Exec) valEq(a, b Val) *Term {
	if len(a.L) != len(b.L) {
		// comparing interface with concrete etc. is not produced by ssa; nil constants have the right layout
		panic(fmt.Sprintf("valEq: layout mismatch %v vs %v", a.T, b.T))
	}
	// slices compare only to nil
	if _, ok := types.Unalias(a.T).Underlying().(*types.Slice); ok {
		if isNilConstVal(b) {
			return Eq(a.L[0], Int(0))
		}
		if isNilConstVal(a) {
			return Eq(b.L[0], Int(0))
		}
	}
	var cs []*Term
	for i := range a.L {
		cs = append(cs, Eq(a.L[i], b.L[i]))
	}
	return And(cs...)
}

func isNilConstVal(v Val) bool {
	for _, l := range v.L {
		if !(l.IsIntLit() && l.name == "0") {
			return false
		}
	}
	return true
}

func (ex *Exec) doConvert(fr *Frame, st *State, x *ssa.Convert) Val {
	v := ex.val(fr, st, x.X)
	from, to := x.X.Type(), x.Type()
	switch {
	case isIntT(from) && isIntT(to):
		r := v.S()
		if ex.arith || ex.ranged {
			u := types.Unalias(to).Underlying().(*types.Basic)
			if lo, hi, ok := intRange(u); ok {
				if ex.arith {
					ex.oblige(st, "overflow", "overflow", And(Ge(r, lo), Le(r, hi)), x.Pos())
				}
				ex.assume(st, And(Ge(r, lo), Le(r, hi)))
			}
		}
		return scalar(to, r)
	case isIntT(from) && isFloatT(to):
		return scalar(to, ToReal(v.S()))
	case isFloatT(from) && isIntT(to):
		return scalar(to, Trunc(v.S()))
	case isFloatT(from) && isFloatT(to):
		return scalar(to, v.S())
	case isStringT(from) && isStringT(to):
		return scalar(to, v.S())
	case isIntT(from) && isStringT(to):
		return scalar(to, UF("runestr", SInt, v.S()))
	}
	// string <-> []byte etc.
	if isStringT(to) {
		return scalar(to, UF("bytes2str", SInt, v.L[0], v.L[1], v.L[2]))
	}
	if isStringT(from) {
		r := FreshVal("str2bytes", to)
		ex.typeFacts(st, r)
		return r
	}
	if _, ok := types.Unalias(from).Underlying().(*types.Pointer); ok {
		return Val{T: to, L: v.L, Loc: v.Loc}
	}
	unsupported("conversion %v -> %v", from, to)
	return Val{}
}

// storedToHeap: is the address produced by this Alloc itself stored somewhere (field, element, map, another variable)?
func storedToHeap(a *ssa.Alloc) bool {
	refs := a.Referrers()
	if refs == nil {
		return false
	}
	for _, r := range *refs {
		switch x := r.(type) {
		case *ssa.Store:
			if x.Val == ssa.Value(a) {
				if dst, ok := x.Addr.(*ssa.Alloc); ok && !dst.Heap {
					continue // pointer kept in a plain local
				}
				return true
			}
		case *ssa.MapUpdate:
			if x.Value == ssa.Value(a) || x.Key == ssa.Value(a) {
				return true
			}
		}
	}
	return false
}
