package main

// Built-in library theory: resource.Quantity, ResourceList accessors, math, bits, sets, time, fmt/errors, ptr.

import (
	"fmt"
	"go/token"
	"go/types"
	"math/big"
	"regexp"
	"strings"

	"golang.org/x/tools/go/ssa"
)

const (
	pResource = "k8s.io/apimachinery/pkg/api/resource."
	pSets     = "k8s.io/apimachinery/pkg/util/sets."
)

func (ex *Exec) quantityOf(st *State, v Val, pos token.Pos) *Term {
	if isQuantity(v.T) {
		return v.S()
	}
	loc := ex.derefLoc(st, v, pos)
	return ex.load(st, loc).S()
}

func (ex *Exec) setQuantity(st *State, p Val, q *Term, pos token.Pos) {
	loc := ex.derefLoc(st, p, pos)
	ex.store(st, loc, Val{T: loc.T, L: []*Term{q}})
}

func (ex *Exec) newBox(st *State, t types.Type, v Val) Val {
	id := ex.alloc(st, "H_"+heapKeyT(t))
	for i, l := range Layout(t) {
		name := fieldHeapName(t, l.Path)
		h := ex.heapGet(st, name, ArrSort(SInt, l.Sort))
		ex.heapSet(st, name, Store(h, id, v.L[i]))
	}
	return Val{T: types.NewPointer(t), L: []*Term{id}}
}

func signTerm(d *Term) *Term {
	z := zeroOf(d.sort)
	return Ite(Lt(d, z), Int(-1), Ite(Eq(d, z), Int(0), Int(1)))
}

func pow10(n int64) *big.Rat {
	r := big.NewRat(1, 1)
	ten := big.NewRat(10, 1)
	if n >= 0 {
		for i := int64(0); i < n; i++ {
			r.Mul(r, ten)
		}
	} else {
		for i := int64(0); i < -n; i++ {
			r.Quo(r, ten)
		}
	}
	return r
}

var qtyRe = regexp.MustCompile(`^([+-]?[0-9]+(?:\.[0-9]+)?)(m|k|M|G|T|P|E|Ki|Mi|Gi|Ti|Pi|Ei|)$`)

func parseQuantityLit(s string) (*big.Rat, bool) {
	m := qtyRe.FindStringSubmatch(s)
	if m == nil {
		return nil, false
	}
	r, ok := new(big.Rat).SetString(m[1])
	if !ok {
		return nil, false
	}
	mul := map[string]*big.Rat{"": big.NewRat(1, 1), "m": big.NewRat(1, 1000), "k": pow10(3), "M": pow10(6), "G": pow10(9), "T": pow10(12), "P": pow10(15), "E": pow10(18),
		"Ki": new(big.Rat).SetInt(new(big.Int).Lsh(bigOne, 10)), "Mi": new(big.Rat).SetInt(new(big.Int).Lsh(bigOne, 20)), "Gi": new(big.Rat).SetInt(new(big.Int).Lsh(bigOne, 30)),
		"Ti": new(big.Rat).SetInt(new(big.Int).Lsh(bigOne, 40)), "Pi": new(big.Rat).SetInt(new(big.Int).Lsh(bigOne, 50)), "Ei": new(big.Rat).SetInt(new(big.Int).Lsh(bigOne, 60))}[m[2]]
	return r.Mul(r, mul), true
}

func roundHalfAway(x *Term) *Term {
	half := RealRat(big.NewRat(1, 2))
	return Ite(Ge(x, RealInt(0)), ToReal(Floor(Add(x, half))), ToReal(Neg(Floor(Add(Neg(x), half)))))
}

// theoryCall handles library functions with a built-in model. Returns true when handled.
func (ex *Exec) theoryCall(fr *Frame, st *State, key string, fn *ssa.Function, args []Val, sig *types.Signature, rt types.Type, pos token.Pos, out *Val) bool {
	ret := func(v Val) bool { *out = v; return true }
	retS := func(t *Term) bool { *out = scalar(rt, t); return true }
	void := func() bool { *out = Val{T: rt}; return true }
	switch {
	case strings.HasPrefix(key, "(*"+pResource+"Quantity).") || strings.HasPrefix(key, "("+pResource+"Quantity)."):
		m := key[strings.LastIndex(key, ".")+1:]
		q := ex.quantityOf(st, args[0], pos)
		switch m {
		case "Value":
			return retS(Ceil(q))
		case "MilliValue":
			return retS(Ceil(Mul(q, RealInt(1000))))
		case "ScaledValue":
			if s := args[1].S(); s.IsIntLit() {
				return retS(Ceil(Mul(q, RealRat(pow10(-s.IntVal().Int64())))))
			}
		case "Cmp":
			return retS(signTerm(Sub(q, ex.quantityOf(st, args[1], pos))))
		case "CmpInt64":
			return retS(signTerm(Sub(q, ToReal(args[1].S()))))
		case "Equal":
			return retS(Eq(q, ex.quantityOf(st, args[1], pos)))
		case "Sign":
			return retS(signTerm(q))
		case "IsZero":
			return retS(Eq(q, RealInt(0)))
		case "Add":
			ex.setQuantity(st, args[0], Add(q, ex.quantityOf(st, args[1], pos)), pos)
			return void()
		case "Sub":
			ex.setQuantity(st, args[0], Sub(q, ex.quantityOf(st, args[1], pos)), pos)
			return void()
		case "Neg":
			ex.setQuantity(st, args[0], Neg(q), pos)
			return void()
		case "Set":
			ex.setQuantity(st, args[0], ToReal(args[1].S()), pos)
			return void()
		case "SetMilli":
			ex.setQuantity(st, args[0], RDiv(ToReal(args[1].S()), RealInt(1000)), pos)
			return void()
		case "SetScaled":
			if s := args[2].S(); s.IsIntLit() {
				ex.setQuantity(st, args[0], Mul(ToReal(args[1].S()), RealRat(pow10(s.IntVal().Int64()))), pos)
				return void()
			}
		case "DeepCopy":
			return retS(q)
		case "DeepCopyInto":
			ex.setQuantity(st, args[1], q, pos)
			return void()
		case "AsApproximateFloat64":
			return retS(q)
		case "AsInt64":
			*out = Val{T: rt, L: []*Term{Floor(q), Eq(ToReal(Floor(q)), q)}}
			return true
		case "String":
			return retS(UF("qstr", SInt, q))
		case "RoundUp":
			// RoundUp(scale): q := ceil(q / 10^scale) * 10^scale
			if s := args[1].S(); s.IsIntLit() {
				p := RealRat(pow10(s.IntVal().Int64()))
				nq := Mul(ToReal(Ceil(RDiv(q, p))), p)
				ex.setQuantity(st, args[0], nq, pos)
				return retS(Eq(nq, q))
			}
		}
		return false
	case strings.HasPrefix(key, pResource):
		switch key[len(pResource):] {
		case "NewQuantity":
			return ret(ex.newBox(st, derefType(rt), scalar(derefType(rt), ToReal(args[0].S()))))
		case "NewMilliQuantity":
			return ret(ex.newBox(st, derefType(rt), scalar(derefType(rt), RDiv(ToReal(args[0].S()), RealInt(1000)))))
		case "NewScaledQuantity":
			if s := args[1].S(); s.IsIntLit() {
				return ret(ex.newBox(st, derefType(rt), scalar(derefType(rt), Mul(ToReal(args[0].S()), RealRat(pow10(s.IntVal().Int64()))))))
			}
		case "MustParse":
			if s := args[0].S(); s.IsIntLit() {
				if lit, ok := ex.eng.strOf(s.IntVal().Int64()); ok {
					if r, ok := parseQuantityLit(lit); ok {
						return retS(RealRat(r))
					}
				}
			}
			return retS(UF("parseq", SReal, args[0].S()))
		case "ParseQuantity":
			*out = Val{T: rt, L: []*Term{UF("parseq", SReal, args[0].S()), UF("parseq_err", SInt, args[0].S())}}
			return true
		}
		return false
	case strings.HasPrefix(key, "(k8s.io/api/core/v1.ResourceList).") || strings.HasPrefix(key, "(*k8s.io/api/core/v1.ResourceList)."):
		m := key[strings.LastIndex(key, ".")+1:]
		rl := args[0]
		if derefType(rl.T) != nil {
			rl = ex.load(st, ex.derefLoc(st, rl, pos))
		}
		var name *Term
		switch m {
		case "Cpu":
			name = ex.eng.strLit("cpu")
		case "Memory":
			name = ex.eng.strLit("memory")
		case "Pods":
			name = ex.eng.strLit("pods")
		case "Storage":
			name = ex.eng.strLit("storage")
		case "StorageEphemeral":
			name = ex.eng.strLit("ephemeral-storage")
		case "Name":
			name = args[1].S()
		case "DeepCopy":
			return ret(ex.copyMap(st, rl))
		default:
			return false
		}
		v := ex.mapGet(st, rl.T, rl.S(), name)
		return ret(ex.newBox(st, derefType(rt), v))
	case strings.HasPrefix(key, "math."):
		switch key {
		case "math.Max":
			a, b := args[0].S(), args[1].S()
			return retS(Ite(Gt(a, b), a, b))
		case "math.Min":
			a, b := args[0].S(), args[1].S()
			return retS(Ite(Lt(a, b), a, b))
		case "math.Abs":
			a := args[0].S()
			return retS(Ite(Lt(a, RealInt(0)), Neg(a), a))
		case "math.Ceil":
			return retS(ToReal(Ceil(args[0].S())))
		case "math.Floor":
			return retS(ToReal(Floor(args[0].S())))
		case "math.Trunc":
			return retS(ToReal(Trunc(args[0].S())))
		case "math.Round":
			return retS(roundHalfAway(args[0].S()))
		case "math.IsNaN", "math.IsInf":
			return retS(False)
		}
		return false
	case strings.HasPrefix(key, "math/bits."):
		two64 := pow2(64)
		switch key {
		case "math/bits.Mul64":
			p := Mul(args[0].S(), args[1].S())
			*out = Val{T: rt, L: []*Term{EDiv(p, two64), EMod(p, two64)}}
			return true
		case "math/bits.Div64":
			hi, lo, y := args[0].S(), args[1].S(), args[2].S()
			ex.oblige(st, "nopanic", "nopanic/div64", And(Ne(y, Int(0)), Lt(hi, y)), pos)
			ex.assume(st, And(Ne(y, Int(0)), Lt(hi, y)))
			n := Add(Mul(hi, two64), lo)
			*out = Val{T: rt, L: []*Term{EDiv(n, y), EMod(n, y)}}
			return true
		case "math/bits.Add64":
			s := Add(Add(args[0].S(), args[1].S()), args[2].S())
			*out = Val{T: rt, L: []*Term{EMod(s, two64), EDiv(s, two64)}}
			return true
		}
		return false
	case strings.HasPrefix(key, "("+pSets) || strings.HasPrefix(key, pSets):
		return ex.setsCall(st, key, args, rt, pos, out)
	case strings.HasPrefix(key, "(time.Time).") || strings.HasPrefix(key, "(*time.Time).") || strings.HasPrefix(key, "time.") || strings.HasPrefix(key, "(time.Duration).") ||
		strings.HasPrefix(key, "(*k8s.io/apimachinery/pkg/apis/meta/v1.Time).") || strings.HasPrefix(key, "(k8s.io/apimachinery/pkg/apis/meta/v1.Time).") || strings.HasPrefix(key, "k8s.io/apimachinery/pkg/apis/meta/v1.Now") || strings.HasPrefix(key, "k8s.io/apimachinery/pkg/apis/meta/v1.NewTime"):
		return ex.timeCall(st, key, args, rt, pos, out)
	case key == "fmt.Sprintf" || key == "fmt.Sprint" || key == "fmt.Sprintln":
		return retS(Fresh("sprintf", SInt))
	case key == "fmt.Errorf" || key == "errors.New" || key == "k8s.io/apimachinery/pkg/util/errors.NewAggregate":
		e := Fresh("err", SInt)
		if key == "k8s.io/apimachinery/pkg/util/errors.NewAggregate" {
			// nil for an empty list
			ex.assume(st, Implies(Gt(args[0].L[2], Int(0)), Gt(e, Int(0))))
			ex.assume(st, Implies(Eq(args[0].L[2], Int(0)), Eq(e, Int(0))))
			ex.assume(st, Ge(e, Int(0)))
		} else {
			ex.assume(st, Gt(e, Int(0)))
		}
		return retS(e)
	case key == "(error).Error":
		return retS(UF("errstr", SInt, args[0].S()))
	case strings.HasPrefix(key, "k8s.io/utils/ptr.To") || strings.HasPrefix(key, "k8s.io/utils/pointer.") && !strings.Contains(key, "Deref") && !strings.Contains(key, "Equal"):
		if et := derefType(rt); et != nil && len(args) == 1 && len(Layout(et)) == len(args[0].L) {
			return ret(ex.newBox(st, et, args[0]))
		}
		return false
	case key == "k8s.io/utils/ptr.Deref" || strings.HasPrefix(key, "k8s.io/utils/pointer.") && strings.Contains(key, "Deref"):
		p := args[0]
		et := derefType(p.T)
		if et == nil || p.Loc != nil {
			return false
		}
		v := ex.load(st, &Loc{Kind: locField, Base: p.S(), Obj: et, T: et})
		return ret(IteVal(Eq(p.S(), Int(0)), args[1], v))
	case key == "strconv.Itoa":
		s := UF("itoa", SInt, args[0].S())
		ex.assumeRaw(Eq(UF("atoi", SInt, s), args[0].S()))
		return retS(s)
	case key == "strconv.Atoi":
		*out = Val{T: rt, L: []*Term{UF("atoi", SInt, args[0].S()), UF("atoi_err", SInt, args[0].S())}}
		return true
	case key == "sort.Slice" || key == "sort.SliceStable":
		// the slice's elements are permuted: same length, same set of elements (sortedness is not modelled)
		sv, ok := ex.ifaceVals[args[0].S()]
		if !ok {
			return false
		}
		sl, ok := types.Unalias(sv.T).Underlying().(*types.Slice)
		if !ok {
			return false
		}
		arr, off, ln := sv.L[0], sv.L[1], sv.L[2]
		ls := Layout(sl.Elem())
		preSort := st.clone()
		olds := make([]*Term, len(ls))
		news := make([]*Term, len(ls))
		for i, l := range ls {
			name := elemHeapName(sl.Elem(), l.Path)
			srt := ArrSort(SInt, ArrSort(SInt, l.Sort))
			h := ex.heapGet(st, name, srt)
			olds[i] = shiftRow(Select(h, arr), off)
			nrow := Fresh("sorted", ArrSort(SInt, l.Sort))
			ex.heapSet(st, name, Store(h, arr, nrow))
			news[i] = shiftRow(nrow, off)
		}
		ex.boundN++
		j := Bound(fmt.Sprintf("sj%d", ex.boundN), SInt)
		k := Bound(fmt.Sprintf("sk%d", ex.boundN), SInt)
		inr := func(x *Term) *Term { return And(Ge(x, Int(0)), Lt(x, ln)) }
		// the new contents are the old ones under a bijection perm of [0,len) (inv is its inverse)
		permF := DeclFun(fmt.Sprintf("perm!%d", ex.boundN), []Sort{SInt}, SInt)
		invF := DeclFun(fmt.Sprintf("pinv!%d", ex.boundN), []Sort{SInt}, SInt)
		perm := func(x *Term) *Term { return App(permF, SInt, x) }
		inv := func(x *Term) *Term { return App(invF, SInt, x) }
		if len(ls) > 0 {
			facts := []*Term{inr(perm(j)), Eq(inv(perm(j)), j)}
			for i := range ls {
				facts = append(facts, Eq(Select(news[i], j), Select(olds[i], perm(j))))
			}
			ex.assume(st, Forall([]*Term{j}, Implies(inr(j), And(facts...)), []*Term{Select(news[0], j)}, []*Term{perm(j)}))
			ex.assume(st, Forall([]*Term{k}, Implies(inr(k), And(inr(inv(k)), Eq(perm(inv(k)), k))), []*Term{Select(olds[0], k)}, []*Term{inv(k)}))
		}
		// precondition of sort.Slice: `less(i, j)` must be a function of the ELEMENTS at i and j (the sort moves
		// elements around and keeps calling less with positions); a comparator that indexes other data by position
		// is inconsistent. Checked by evaluating the closure on two symbolic index pairs holding equal elements.
		if clo := args[1].Clo; clo != nil && len(ls) > 0 && ex.dry == 0 {
			nInstr := 0
			if cf, ok := clo.Fn.(*ssa.Function); ok {
				for _, b := range cf.Blocks {
					nInstr += len(b.Instrs)
				}
			}
			impure0 := ex.impure
			if cf, ok := clo.Fn.(*ssa.Function); ok && len(cf.Blocks) > 0 && len(cf.Params) == 2 && nInstr <= 80 {
				i1, j1, i2, j2 := Fresh("si", SInt), Fresh("sj", SInt), Fresh("si", SInt), Fresh("sj", SInt)
				eval := func(a, b *Term) *Term {
					saveA, saveO := len(ex.assumps), len(ex.obligs)
					ex.dry++
					var res *Term
					func() {
						defer func() {
							ex.dry--
							if r := recover(); r != nil {
								if _, isU := r.(Unsupported); !isU {
									panic(r)
								}
							}
						}()
						cst := preSort.clone()
						ex.assume(cst, And(inr(a), inr(b)))
						vals, out, _ := ex.execFunc(cf, []Val{scalar(cf.Params[0].Type(), a), scalar(cf.Params[1].Type(), b)}, clo.Bindings, cst, fr.depth+1, nil)
						if out != nil && len(vals) == 1 && len(vals[0].L) == 1 && vals[0].L[0].sort == SBool {
							res = vals[0].L[0]
						}
					}()
					// keep the facts gathered while evaluating (loads etc.), drop obligations raised inside
					_ = saveA
					ex.obligs = ex.obligs[:saveO]
					return res
				}
				r1 := eval(i1, j1)
				r2 := eval(i2, j2)
				if r1 != nil && r2 != nil && ex.impure == impure0 {
					var same []*Term
					for i := range ls {
						same = append(same, Eq(Select(olds[i], i1), Select(olds[i], i2)), Eq(Select(olds[i], j1), Select(olds[i], j2)))
					}
					hyp := And(inr(i1), inr(j1), inr(i2), inr(j2), And(same...))
					o := ex.oblige(st, "callpre", "call:sort.Slice/pre#elementwise", Implies(hyp, Eq(r1, r2)), pos)
					_ = o
				}
			}
		}
		ex.note("extern", key+" (elements permuted by a bijection of the index range; the order produced is not modelled)")
		return void()
	}
	return false
}

func (ex *Exec) copyMap(st *State, m Val) Val {
	mh := mapOf(m.T)
	id := ex.alloc(st, "M_"+mh.key)
	d := ex.heapGet(st, mh.domName(), mh.domSort())
	ex.heapSet(st, mh.domName(), Store(d, id, Select(d, m.S())))
	ln := ex.heapGet(st, mh.lenName(), ArrSort(SInt, SInt))
	ex.heapSet(st, mh.lenName(), Store(ln, id, Select(ln, m.S())))
	for _, l := range mh.vals {
		h := ex.heapGet(st, mh.valName(l), mh.valSort(l))
		ex.heapSet(st, mh.valName(l), Store(h, id, Select(h, m.S())))
	}
	// DeepCopy of a nil map is nil
	return Val{T: m.T, L: []*Term{Ite(Eq(m.S(), Int(0)), Int(0), id)}}
}

// sliceElems returns the elements of a slice whose length is a small literal.
func (ex *Exec) sliceElems(st *State, s Val) ([]Val, bool) {
	sl, ok := types.Unalias(s.T).Underlying().(*types.Slice)
	if !ok {
		return nil, false
	}
	ln := s.L[2]
	if !ln.IsIntLit() || ln.IntVal().Int64() > 32 {
		return nil, false
	}
	n := ln.IntVal().Int64()
	var out []Val
	for i := int64(0); i < n; i++ {
		out = append(out, ex.load(st, &Loc{Kind: locElem, Base: s.L[0], Off: s.L[1], Idx: Int(i), Obj: sl.Elem(), T: sl.Elem()}))
	}
	return out, true
}

func (ex *Exec) setsCall(st *State, key string, args []Val, rt types.Type, pos token.Pos, out *Val) bool {
	m := key[strings.LastIndex(key, ".")+1:]
	ret := func(v Val) bool { *out = v; return true }
	retS := func(t *Term) bool { *out = scalar(rt, t); return true }
	isMethod := strings.HasPrefix(key, "(")
	if !isMethod {
		// constructors: New[T](items...), NewString(items...), NewInt(...), KeySet, ...
		if strings.HasPrefix(m, "New") || strings.HasPrefix(m, "New[") {
			if _, ok := types.Unalias(rt).Underlying().(*types.Map); !ok {
				return false
			}
			id := ex.newMap(st, rt)
			if len(args) == 1 {
				items, ok := ex.sliceElems(st, args[0])
				if !ok {
					return false
				}
				mm := types.Unalias(rt).Underlying().(*types.Map)
				for _, it := range items {
					ex.mapSet(st, rt, id, ex.packKey(st, mm, it), Val{T: mm.Elem()})
				}
			}
			return ret(scalar(rt, id))
		}
		return false
	}
	recv := args[0]
	mm, ok := types.Unalias(recv.T).Underlying().(*types.Map)
	if !ok {
		return false
	}
	switch m {
	case "Has":
		return retS(ex.mapHas(st, recv.T, recv.S(), ex.packKey(st, mm, args[1])))
	case "Len":
		return retS(ex.lenOfMap(st, recv.T, recv.S()))
	case "Insert":
		items, ok := ex.sliceElems(st, args[1])
		if !ok {
			return false
		}
		ex.assume(st, Ne(recv.S(), Int(0)))
		for _, it := range items {
			ex.mapSet(st, recv.T, recv.S(), ex.packKey(st, mm, it), Val{T: mm.Elem()})
		}
		return ret(recv)
	case "Delete":
		items, ok := ex.sliceElems(st, args[1])
		if !ok {
			return false
		}
		for _, it := range items {
			ex.mapDelete(st, recv.T, recv.S(), ex.packKey(st, mm, it))
		}
		return ret(recv)
	case "Clone":
		return ret(ex.copyMap(st, recv))
	}
	return false
}

func (ex *Exec) timeOf(st *State, v Val, pos token.Pos) *Term {
	if len(v.L) == 1 && derefType(v.T) == nil {
		return v.S()
	}
	loc := ex.derefLoc(st, v, pos)
	return ex.load(st, loc).S()
}

func (ex *Exec) timeCall(st *State, key string, args []Val, rt types.Type, pos token.Pos, out *Val) bool {
	retS := func(t *Term) bool { *out = scalar(rt, t); return true }
	m := key[strings.LastIndex(key, ".")+1:]
	switch key {
	case "time.Now", "k8s.io/apimachinery/pkg/apis/meta/v1.Now":
		n := Fresh("now", SInt)
		ex.assume(st, Gt(n, Int(0)))
		return retS(n)
	case "time.Since":
		n := Fresh("now", SInt)
		ex.assume(st, Gt(n, Int(0)))
		return retS(Sub(n, args[0].S()))
	case "k8s.io/apimachinery/pkg/apis/meta/v1.NewTime":
		return retS(args[0].S())
	}
	if strings.HasPrefix(key, "(time.Duration).") {
		d := args[0].S()
		switch m {
		case "Seconds":
			return retS(RDiv(ToReal(d), RealInt(1000000000)))
		case "Milliseconds":
			return retS(TDiv(d, Int(1000000)))
		case "Nanoseconds":
			return retS(d)
		case "String":
			return retS(UF("durstr", SInt, d))
		}
		return false
	}
	if !strings.HasPrefix(key, "(") {
		return false
	}
	t := ex.timeOf(st, args[0], pos)
	switch m {
	case "Before":
		return retS(Lt(t, ex.timeOf(st, args[1], pos)))
	case "After":
		return retS(Gt(t, ex.timeOf(st, args[1], pos)))
	case "Equal":
		return retS(Eq(t, ex.timeOf(st, args[1], pos)))
	case "IsZero":
		return retS(Eq(t, Int(0)))
	case "Sub":
		return retS(Sub(t, ex.timeOf(st, args[1], pos)))
	case "Add":
		return retS(Add(t, args[1].S()))
	case "UnixNano":
		return retS(t)
	case "Unix":
		return retS(EDiv(t, Int(1000000000)))
	case "String", "Format":
		return retS(UF("timestr", SInt, t))
	case "DeepCopy":
		if derefType(args[0].T) != nil {
			return false
		}
		return retS(t)
	}
	return false
}

var _ = fmt.Sprint
