package main

// Replay of counterexamples against the real code (go test -overlay). Filled in per input shape.

func tryReplay(r *propRun, eng *Engine, v *Verdict, model string, rec map[string]interface{}) (bool, string) {
	return false, "no concretiser for this obligation's input shape"
}
