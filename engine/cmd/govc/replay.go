package main

// Replay of counterexamples against the real code through `go test -overlay` (nothing is written into the repo).
//
// Concretiser scope: functions and methods all of whose inputs (parameters, and the receiver when it is a scalar)
// are integers, booleans, floats or strings. The solver's model supplies the values; the function is called
// for real; the contract's `requires` must hold for the input and every `ensures` clause that compiles to Go
// is evaluated on the real result. Anything else (heap-shaped inputs, quantified clauses) is reported as
// "no concretiser" and the VIOLATION line keeps its no-failing-input-found suffix.

import (
	"encoding/json"
	"fmt"
	"go/types"
	"math/big"
	"os"
	"os/exec"
	"path/filepath"
	"regexp"
	"strings"
)

// ---- s-expression model parsing ----

type sx struct {
	atom string
	list []*sx
}

func parseSx(s string) []*sx {
	var toks []string
	cur := strings.Builder{}
	flush := func() {
		if cur.Len() > 0 {
			toks = append(toks, cur.String())
			cur.Reset()
		}
	}
	inBar := false
	for _, r := range s {
		switch {
		case inBar:
			cur.WriteRune(r)
			if r == '|' {
				inBar = false
			}
		case r == '|':
			cur.WriteRune(r)
			inBar = true
		case r == '(' || r == ')':
			flush()
			toks = append(toks, string(r))
		case r == ' ' || r == '\n' || r == '\t' || r == '\r':
			flush()
		default:
			cur.WriteRune(r)
		}
	}
	flush()
	pos := 0
	var rd func() *sx
	rd = func() *sx {
		if pos >= len(toks) {
			return nil
		}
		t := toks[pos]
		pos++
		if t == "(" {
			n := &sx{}
			for pos < len(toks) && toks[pos] != ")" {
				n.list = append(n.list, rd())
			}
			pos++
			return n
		}
		return &sx{atom: t}
	}
	var out []*sx
	for pos < len(toks) {
		if x := rd(); x != nil {
			out = append(out, x)
		}
	}
	return out
}

func sxNum(x *sx) (*big.Rat, bool) {
	if x == nil {
		return nil, false
	}
	if x.atom != "" {
		r, ok := new(big.Rat).SetString(x.atom)
		return r, ok
	}
	if len(x.list) == 2 && x.list[0].atom == "-" {
		r, ok := sxNum(x.list[1])
		if !ok {
			return nil, false
		}
		return r.Neg(r), true
	}
	if len(x.list) == 3 && x.list[0].atom == "/" {
		a, ok1 := sxNum(x.list[1])
		b, ok2 := sxNum(x.list[2])
		if !ok1 || !ok2 || b.Sign() == 0 {
			return nil, false
		}
		return a.Quo(a, b), true
	}
	return nil, false
}

// modelValues extracts nullary definitions of a z3/cvc5 model.
func modelValues(model string) map[string]*sx {
	out := map[string]*sx{}
	var walk func(x *sx)
	walk = func(x *sx) {
		if x == nil {
			return
		}
		if len(x.list) == 5 && x.list[0].atom == "define-fun" && x.list[2].atom == "" && len(x.list[2].list) == 0 {
			out[strings.Trim(x.list[1].atom, "|")] = x.list[4]
			return
		}
		for _, c := range x.list {
			walk(c)
		}
	}
	for _, x := range parseSx(model) {
		walk(x)
	}
	return out
}

// ---- spec expression -> Go ----

type goComp struct {
	params map[string]bool
	ok     bool
	why    string
}

func (g *goComp) fail(why string) string {
	if g.ok {
		g.ok = false
		g.why = why
	}
	return "false"
}

func (g *goComp) expr(e *SExpr) string {
	switch e.Op {
	case "int":
		return e.Name
	case "float":
		return e.Name
	case "str":
		return fmt.Sprintf("%q", e.Name)
	case "id":
		switch e.Name {
		case "result", "result0":
			return "verifResult0"
		case "true", "false":
			return e.Name
		}
		if strings.HasPrefix(e.Name, "result") {
			return "verifResult" + strings.TrimPrefix(e.Name, "result")
		}
		if strings.HasPrefix(e.Name, "$") {
			return g.fail("ghost identifier " + e.Name)
		}
		return e.Name // parameter or package-level constant/variable: valid in-package Go
	case "unary":
		if e.Name == "*" {
			return g.fail("type expression")
		}
		return "(" + e.Name + g.expr(e.Args[0]) + ")"
	case "binary":
		a, b := g.expr(e.Args[0]), g.expr(e.Args[1])
		switch e.Name {
		case "==>":
			return "(!(" + a + ") || (" + b + "))"
		case "<==>":
			return "((" + a + ") == (" + b + "))"
		}
		return "(" + a + " " + e.Name + " " + b + ")"
	case "cond":
		return "verifIte(" + g.expr(e.Args[0]) + ", " + g.expr(e.Args[1]) + ", " + g.expr(e.Args[2]) + ")"
	case "call":
		if e.Args[0].Op == "id" {
			var as []string
			for _, a := range e.Args[1:] {
				as = append(as, g.expr(a))
			}
			switch e.Args[0].Name {
			case "max":
				return "verifMax(" + strings.Join(as, ", ") + ")"
			case "min":
				return "verifMin(" + strings.Join(as, ", ") + ")"
			case "max0":
				return "verifMax(" + as[0] + ", 0)"
			case "abs":
				return "verifMax(" + as[0] + ", -(" + as[0] + "))"
			case "tdiv":
				return "((" + as[0] + ") / (" + as[1] + "))"
			case "int64", "int", "int32", "float64":
				return e.Args[0].Name + "(" + as[0] + ")"
			}
		}
		return g.fail("call " + e.Args[0].String())
	}
	return g.fail("expression " + e.Op)
}

func scalarGoLit(t types.Type, x *sx) (string, bool) {
	b, ok := types.Unalias(t).Underlying().(*types.Basic)
	if !ok {
		return "", false
	}
	tn := types.TypeString(t, func(p *types.Package) string { return "" })
	tn = strings.TrimPrefix(tn, ".")
	switch {
	case b.Info()&types.IsBoolean != 0:
		if x.atom == "true" || x.atom == "false" {
			return tn + "(" + x.atom + ")", true
		}
	case b.Info()&types.IsInteger != 0:
		if r, ok := sxNum(x); ok && r.IsInt() {
			return tn + "(" + r.Num().String() + ")", true
		}
	case b.Info()&types.IsFloat != 0:
		if r, ok := sxNum(x); ok {
			f, _ := r.Float64()
			return fmt.Sprintf("%s(%v)", tn, f), true
		}
	}
	return "", false
}

func tryReplay(r *propRun, eng *Engine, v *Verdict, model string, rec map[string]interface{}) (bool, string) {
	fn := eng.funcsByKey[v.FuncKey]
	con := eng.contracts[v.FuncKey]
	if fn == nil || con == nil || fn.Pkg == nil {
		return false, "no concretiser for this obligation's input shape"
	}
	if fn.Signature.Recv() != nil || fn.Parent() != nil {
		return false, "no concretiser: methods and closures take heap-shaped inputs"
	}
	vals := modelValues(model)
	var args []string
	inputs := map[string]string{}
	for _, p := range fn.Params {
		var found *sx
		prefix := "p_" + sanitize(p.Name()) + "!"
		for k, x := range vals {
			if strings.HasPrefix(k, prefix) {
				found = x
			}
		}
		if found == nil {
			// unconstrained input: any value
			found = &sx{atom: "0"}
			if b, ok := types.Unalias(p.Type()).Underlying().(*types.Basic); ok && b.Info()&types.IsBoolean != 0 {
				found = &sx{atom: "false"}
			}
		}
		lit, ok := scalarGoLit(p.Type(), found)
		if !ok {
			return false, fmt.Sprintf("no concretiser: parameter %s of type %s is not a scalar", p.Name(), p.Type())
		}
		args = append(args, lit)
		inputs[p.Name()] = lit
	}
	pkgPath := fn.Pkg.Pkg.Path()
	rel := strings.TrimPrefix(pkgPath, eng.module+"/")
	g := &goComp{ok: true}
	var sb strings.Builder
	fmt.Fprintf(&sb, "package %s\n\nimport \"testing\"\n\n", fn.Pkg.Pkg.Name())
	sb.WriteString("func verifIte[T any](c bool, a, b T) T { if c { return a }; return b }\n")
	sb.WriteString("func verifMax[T int | int32 | int64 | uint | uint32 | uint64 | float64](a, b T) T { if a > b { return a }; return b }\n")
	sb.WriteString("func verifMin[T int | int32 | int64 | uint | uint32 | uint64 | float64](a, b T) T { if a < b { return a }; return b }\n\n")
	fmt.Fprintf(&sb, "// replay of %s\nfunc TestVerifReplay(t *testing.T) {\n", v.Name)
	for i, p := range fn.Params {
		fmt.Fprintf(&sb, "\t%s := %s\n\t_ = %s\n", p.Name(), args[i], p.Name())
	}
	for i, c := range con.Requires {
		g2 := &goComp{ok: true}
		code := g2.expr(c.E)
		if g2.ok {
			fmt.Fprintf(&sb, "\tif !(%s) { t.Skipf(\"REPLAY-SKIP requires#%d does not hold for the model input\") }\n", code, i+1)
		}
	}
	sb.WriteString("\tdefer func() {\n\t\tif p := recover(); p != nil {\n\t\t\tt.Fatalf(\"REPLAY-FAIL nopanic: the real function panicked: %v\", p)\n\t\t}\n\t}()\n")
	nres := fn.Signature.Results().Len()
	var rs []string
	for i := 0; i < nres; i++ {
		rs = append(rs, fmt.Sprintf("verifResult%d", i))
	}
	call := fmt.Sprintf("%s(%s)", fn.Name(), strings.Join(func() []string {
		var ns []string
		for _, p := range fn.Params {
			ns = append(ns, p.Name())
		}
		return ns
	}(), ", "))
	if nres > 0 {
		fmt.Fprintf(&sb, "\t%s := %s\n", strings.Join(rs, ", "), call)
		for _, x := range rs {
			fmt.Fprintf(&sb, "\t_ = %s\n", x)
		}
		if nres == 1 && fn.Signature.Results().At(0).Name() != "" {
			fmt.Fprintf(&sb, "\t%s := verifResult0\n\t_ = %s\n", fn.Signature.Results().At(0).Name(), fn.Signature.Results().At(0).Name())
		}
	} else {
		fmt.Fprintf(&sb, "\t%s\n", call)
	}
	compiled := 0
	for i, c := range con.Ensures {
		g2 := &goComp{ok: true}
		code := g2.expr(c.E)
		if !g2.ok {
			g.why = g2.why
			continue
		}
		compiled++
		fmt.Fprintf(&sb, "\tif !(%s) { t.Errorf(\"REPLAY-FAIL ensures#%s violated by the real function: inputs %s\") }\n", code, clauseName(c, i), strings.ReplaceAll(fmt.Sprint(inputs), "\"", "'"))
	}
	sb.WriteString("}\n")
	src := sb.String()
	rec["replay_test"] = src
	rec["replay_inputs"] = inputs
	rec["replay_pkg"] = rel
	out, failed := runReplayTest(r, rel, src)
	rec["replay_output"] = truncate(out, 4000)
	if failed && strings.Contains(out, "REPLAY-FAIL") {
		return true, fmt.Sprintf("real function called with %v: %s", inputs, firstMatch(out, `REPLAY-FAIL[^\n]*`))
	}
	if strings.Contains(out, "REPLAY-SKIP") {
		return false, "model input does not satisfy the precondition when evaluated concretely"
	}
	return false, fmt.Sprintf("replayed %v on the real function: no failure observed (%d ensures clauses evaluated)", inputs, compiled)
}

func firstMatch(s, re string) string {
	return regexp.MustCompile(re).FindString(s)
}

func runReplayTest(r *propRun, relPkg, src string, runPat ...string) (string, bool) {
	pat, timeout := "^TestVerifReplay$", "120s"
	if len(runPat) > 0 && runPat[0] != "" {
		pat, timeout = runPat[0], "3000s"
	}
	dir := filepath.Join(r.verif, ".work", fmt.Sprintf("replay.%d", os.Getpid()))
	_ = os.MkdirAll(dir, 0o755)
	defer os.RemoveAll(dir)
	tf := filepath.Join(dir, "zz_verif_replay_test.go")
	_ = os.WriteFile(tf, []byte(src), 0o644)
	ov := map[string]map[string]string{"Replace": {filepath.Join(r.repo, relPkg, "zz_verif_replay_test.go"): tf}}
	data, _ := json.Marshal(ov)
	of := filepath.Join(dir, "ov.json")
	_ = os.WriteFile(of, data, 0o644)
	cmd := exec.Command("go", "test", "-overlay", of, "-vet=off", "-count=1", "-timeout", timeout, "-run", pat, "./"+relPkg)
	cmd.Dir = r.repo
	cmd.Env = append(os.Environ(), "VERIF_BOUND_TIER="+r.tier)
	out, err := cmd.CombinedOutput()
	return string(out), err != nil
}

// runReplayCmd re-runs a stored replay file: ./check replay <file>
func runReplayCmd(args []string) int {
	if len(args) < 1 {
		fmt.Println("usage: govc replay <replay.json> [-repo /repo] [-verif /verif]")
		return 2
	}
	data, err := os.ReadFile(args[0])
	if err != nil {
		fmt.Println(err)
		return 2
	}
	var rec map[string]interface{}
	if err := json.Unmarshal(data, &rec); err != nil {
		fmt.Println(err)
		return 2
	}
	fmt.Printf("obligation: %v\nreason: %v\nsolver: %v answer: %v\nwhere: %v\n", rec["obligation"], rec["reason"], rec["solver"], rec["answer"], rec["where"])
	src, _ := rec["replay_test"].(string)
	pkg, _ := rec["replay_pkg"].(string)
	if src == "" || pkg == "" {
		fmt.Println("no concrete replay is stored for this obligation (no-failing-input-found); solver output:")
		fmt.Println(truncate(fmt.Sprint(rec["solver_output"]), 3000))
		return 1
	}
	r := &propRun{repo: "/repo", verif: "/verif"}
	for i := 1; i+1 < len(args); i += 2 {
		switch args[i] {
		case "-repo":
			r.repo = args[i+1]
		case "-verif":
			r.verif = args[i+1]
		}
	}
	runPat, _ := rec["replay_run"].(string)
	r.tier, _ = rec["tier"].(string)
	out, failed := runReplayTest(r, pkg, src, runPat)
	fmt.Println(out)
	if failed {
		fmt.Println("REPLAY: the failure reproduces on the current tree")
		return 1
	}
	fmt.Println("REPLAY: no failure on the current tree")
	return 0
}
