package main

// Go types -> leaf layouts; engine values.

import (
	"fmt"
	"go/types"
	"strings"
)

// Leaf is one scalar component of a Go value.
type Leaf struct {
	Path string // ".f.g" style path below the value ("" for scalars; ".#arr" etc. for slice parts)
	Sort Sort
	T    types.Type // Go type of the leaf (nil for synthetic parts)
	Ref  string     // allocation space of the reference held in this leaf ("" = not a reference into a modelled heap)
}

// refKeyOf names the allocation space (id space with its own watermark) that references of type t point into:
// one per heap family, so that allocating an object of one type never changes which ids of another type exist.
//
//	*T (struct or box)  "H_<T>"      map types  "M_<underlying map type>"      []T, *[N]T  "E_<T>"
func refKeyOf(t types.Type) string {
	if t == nil {
		return ""
	}
	reg := func(k string, obj types.Type) string {
		if _, ok := keyType[k]; !ok {
			keyType[k] = obj
		}
		return k
	}
	switch u := types.Unalias(t).Underlying().(type) {
	case *types.Pointer:
		if at, ok := types.Unalias(u.Elem()).Underlying().(*types.Array); ok {
			return reg("E_"+heapKeyT(at.Elem()), at.Elem())
		}
		return reg("H_"+heapKeyT(u.Elem()), u.Elem())
	case *types.Map:
		return reg("M_"+mapKeyOf(t), types.Unalias(t).Underlying())
	case *types.Slice:
		return reg("E_"+heapKeyT(u.Elem()), u.Elem())
	}
	return ""
}

// keyType: the Go type of the objects living in an allocation space (element type for E_, map type for M_).
var keyType = map[string]types.Type{}

// exposure: the allocation spaces in which a value of some type can make objects reachable. A callee that is not
// executed may have allocated whatever its results (and the locations it may write) can reach; only those spaces get a
// new watermark. all = an interface value is reachable, whose dynamic type is unknown (error and context.Context are
// assumed not to carry references to modelled objects).
type exposure struct {
	keys map[string]bool
	all  bool
}

var expoCache = map[types.Type]*exposure{}

func opaqueIface(t types.Type) bool {
	s := types.TypeString(types.Unalias(t), nil)
	return s == "error" || s == "context.Context"
}

func exposureOf(t types.Type) *exposure {
	if t == nil {
		return &exposure{keys: map[string]bool{}}
	}
	if e, ok := expoCache[t]; ok {
		return e
	}
	e := &exposure{keys: map[string]bool{}}
	expoCache[t] = e
	var visitKey func(k string)
	visitLeaves := func(tt types.Type) {
		for _, l := range Layout(tt) {
			switch {
			case l.Ref != "":
				visitKey(l.Ref)
			case l.T != nil:
				if _, isI := types.Unalias(l.T).Underlying().(*types.Interface); isI && !opaqueIface(l.T) {
					e.all = true
				}
			}
		}
	}
	visitKey = func(k string) {
		if e.keys[k] {
			return
		}
		e.keys[k] = true
		kt := keyType[k]
		if kt == nil {
			return
		}
		if m, ok := kt.(*types.Map); ok {
			visitLeaves(m.Key())
			visitLeaves(m.Elem())
			return
		}
		visitLeaves(kt)
	}
	if _, isT := t.(*types.Tuple); isT || true {
		visitLeaves(t)
	}
	return e
}

var layoutCache = map[types.Type][]Leaf{}

const (
	qQuantity = "k8s.io/apimachinery/pkg/api/resource.Quantity"
	qTime     = "time.Time"
	qMetaTime = "k8s.io/apimachinery/pkg/apis/meta/v1.Time"
	qDuration = "time.Duration"
)

func typeName(t types.Type) string {
	t = types.Unalias(t)
	if n, ok := t.(*types.Named); ok {
		o := n.Obj()
		if o.Pkg() != nil {
			return o.Pkg().Path() + "." + o.Name()
		}
		return o.Name()
	}
	return ""
}

func isQuantity(t types.Type) bool { return typeName(t) == qQuantity }

// opaqueStruct: struct types modelled as one scalar.
func opaqueStructSort(t types.Type) (Sort, bool) {
	switch typeName(t) {
	case qQuantity:
		return SReal, true
	case qTime:
		return SInt, true // nanoseconds on an abstract line; zero time = 0
	case "sync.Mutex", "sync.RWMutex", "sync.Once", "sync.WaitGroup", "sync.Map", "sync/atomic.Int32", "sync/atomic.Int64", "sync/atomic.Bool":
		return SInt, true
	}
	return "", false
}

func sortOfBasic(b *types.Basic) Sort {
	info := b.Info()
	switch {
	case info&types.IsBoolean != 0:
		return SBool
	case info&types.IsInteger != 0:
		return SInt
	case info&types.IsFloat != 0:
		return SReal
	case info&types.IsString != 0:
		return SInt
	}
	if b.Kind() == types.UnsafePointer || b.Kind() == types.UntypedNil {
		return SInt
	}
	if info&types.IsComplex != 0 {
		return SReal
	}
	return SInt
}

// Layout returns the leaves of a Go type.
func Layout(t types.Type) []Leaf {
	if st, ok := t.(seenType); ok {
		return []Leaf{{"", ArrSort(st.ks, SBool), nil, ""}}
	}
	if g, ok := t.(globalObj); ok {
		return Layout(g.T)
	}
	t = types.Unalias(t)
	if l, ok := layoutCache[t]; ok {
		return l
	}
	var out []Leaf
	if s, ok := opaqueStructSort(t); ok {
		out = []Leaf{{"", s, t, ""}}
		layoutCache[t] = out
		return out
	}
	switch u := t.Underlying().(type) {
	case *types.Basic:
		out = []Leaf{{"", sortOfBasic(u), t, ""}}
	case *types.Pointer, *types.Map, *types.Chan, *types.Signature, *types.Interface:
		out = []Leaf{{"", SInt, t, refKeyOf(t)}}
	case *types.Slice:
		out = []Leaf{{"#arr", SInt, nil, refKeyOf(t)}, {"#off", SInt, nil, ""}, {"#len", SInt, nil, ""}}
	case *types.Struct:
		for i := 0; i < u.NumFields(); i++ {
			f := u.Field(i)
			for _, l := range Layout(f.Type()) {
				out = append(out, Leaf{"." + f.Name() + l.Path, l.Sort, l.T, l.Ref})
			}
		}
		if len(out) == 0 {
			// empty struct: no leaves
		}
	case *types.Array:
		// arrays by value are modelled as an SMT array from index to a single-leaf element
		el := Layout(u.Elem())
		for _, l := range el {
			out = append(out, Leaf{"#el" + l.Path, ArrSort(SInt, l.Sort), nil, ""})
		}
	case *types.Tuple:
		for i := 0; i < u.Len(); i++ {
			for _, l := range Layout(u.At(i).Type()) {
				out = append(out, Leaf{fmt.Sprintf("#%d%s", i, l.Path), l.Sort, l.T, l.Ref})
			}
		}
	case *types.TypeParam:
		out = []Leaf{{"", SInt, t, ""}}
	default:
		panic(fmt.Sprintf("Layout: unsupported type %s (%T)", t, u))
	}
	layoutCache[t] = out
	return out
}

// Loc is a Go-side address.
type Loc struct {
	Kind   int // locCell, locField, locElem, locBox
	Cell   *Cell
	Base   *Term      // locField: object pointer ; locElem: backing array id
	Idx    *Term      // locElem: index relative to Off
	Off    *Term      // locElem: slice offset (nil = 0)
	Obj    types.Type // locField: the struct type (named or not) whose heap is addressed; locElem: element type
	Prefix string     // leaf path prefix below Obj
	T      types.Type // type of the addressed value
}

const (
	locCell = iota
	locField
	locElem
)

// Cell is a local variable (non-heap or captured Alloc) whose content lives in State.cells.
type Cell struct {
	id   int
	Name string
	T    types.Type
	pos  int
}

// Val is an engine value: a Go type plus one term per leaf. Pointers may carry a Go-side Loc.
type Val struct {
	T   types.Type
	L   []*Term
	Loc *Loc     // for pointer values created by Alloc/FieldAddr/IndexAddr
	Clo *Closure // for function values known statically
}

type Closure struct {
	Fn       interface{} // *ssa.Function
	Bindings []Val
}

func scalar(t types.Type, x *Term) Val { return Val{T: t, L: []*Term{x}} }

func (v Val) S() *Term {
	if len(v.L) != 1 {
		panic(fmt.Sprintf("S(): value of type %v has %d leaves", v.T, len(v.L)))
	}
	return v.L[0]
}

func zeroTerm(l Leaf) *Term {
	switch {
	case l.Sort == SBool:
		return False
	case l.Sort == SReal:
		return RealInt(0)
	case l.Sort == SInt:
		return Int(0)
	case l.Sort.IsArray():
		_, es := l.Sort.splitArr()
		return ConstArr(l.Sort, zeroTerm(Leaf{Sort: es}))
	}
	panic("zeroTerm " + string(l.Sort))
}

func ZeroVal(t types.Type) Val {
	ls := Layout(t)
	v := Val{T: t, L: make([]*Term, len(ls))}
	for i, l := range ls {
		v.L[i] = zeroTerm(l)
	}
	return v
}

func FreshVal(prefix string, t types.Type) Val {
	ls := Layout(t)
	v := Val{T: t, L: make([]*Term, len(ls))}
	for i, l := range ls {
		v.L[i] = Fresh(prefix+l.Path, l.Sort)
	}
	return v
}

// subLeaves returns the index range of leaves below a field path prefix.
func subRange(t types.Type, prefix string) (int, int) {
	ls := Layout(t)
	lo, hi := -1, -1
	for i, l := range ls {
		if l.Path == prefix || strings.HasPrefix(l.Path, prefix+".") || strings.HasPrefix(l.Path, prefix+"#") {
			if lo < 0 {
				lo = i
			}
			hi = i + 1
		}
	}
	if lo < 0 {
		return 0, 0
	}
	return lo, hi
}

func IteVal(c *Term, a, b Val) Val {
	if len(a.L) != len(b.L) {
		panic(fmt.Sprintf("IteVal: leaf mismatch %v vs %v", a.T, b.T))
	}
	out := Val{T: a.T, L: make([]*Term, len(a.L))}
	same := true
	for i := range a.L {
		out.L[i] = Ite(c, a.L[i], b.L[i])
		if a.L[i] != b.L[i] {
			same = false
		}
	}
	if same || a.Loc == b.Loc {
		out.Loc = a.Loc
	}
	if a.Clo == b.Clo {
		out.Clo = a.Clo
	}
	return out
}

// heapKeyT names the heap family of a type.
func heapKeyT(t types.Type) string {
	if g, ok := t.(globalObj); ok {
		return g.name
	}
	t = types.Unalias(t)
	if n := typeName(t); n != "" {
		if nn, ok := t.(*types.Named); ok && nn.TypeArgs().Len() > 0 {
			return sanitize(types.TypeString(t, nil))
		}
		return sanitize(n)
	}
	return sanitize(types.TypeString(t, nil))
}

func isPointerLike(t types.Type) bool {
	switch types.Unalias(t).Underlying().(type) {
	case *types.Pointer, *types.Map, *types.Chan, *types.Signature, *types.Interface, *types.Slice:
		return true
	}
	return false
}

func derefType(t types.Type) types.Type {
	if p, ok := types.Unalias(t).Underlying().(*types.Pointer); ok {
		return p.Elem()
	}
	return nil
}

func isStructLike(t types.Type) bool {
	if _, ok := opaqueStructSort(t); ok {
		return false
	}
	_, ok := types.Unalias(t).Underlying().(*types.Struct)
	return ok
}
