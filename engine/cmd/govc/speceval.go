package main

// Evaluation of spec expressions to terms in a given state.

import (
	"fmt"
	"go/constant"
	"go/types"
	"math/big"
	"strings"

	"golang.org/x/tools/go/ssa"
)

type SpecEnv struct {
	ex      *Exec
	pkgPath string
	vars    map[string]Val
	st      *State
	old     *SpecEnv
	frame   *Frame // locals of this frame are visible by source name
	wmPre   *WMs
	loopHdr *ssa.BasicBlock
	depth   int
	lframe  *Frame // inside old(): frame and header of the loop clause being evaluated, for $range only
	lhdr    *ssa.BasicBlock
}

func (ex *Exec) newEnv(pkgPath string, st *State) *SpecEnv {
	return &SpecEnv{ex: ex, pkgPath: pkgPath, vars: map[string]Val{}, st: st}
}

func (env *SpecEnv) child() *SpecEnv {
	n := *env
	n.vars = make(map[string]Val, len(env.vars)+2)
	for k, v := range env.vars {
		n.vars[k] = v
	}
	return &n
}

var (
	tInt    = types.Typ[types.UntypedInt]
	tReal   = types.Typ[types.UntypedFloat]
	tBool   = types.Typ[types.Bool]
	tNil    = types.Typ[types.UntypedNil]
	tString = types.Typ[types.String]
)

func bval(t *Term) Val { return Val{T: tBool, L: []*Term{t}} }
func ival(t *Term) Val { return Val{T: tInt, L: []*Term{t}} }
func rval(t *Term) Val { return Val{T: tReal, L: []*Term{t}} }

type specErr struct{ msg string }

func (e specErr) Error() string { return e.msg }

func sfail(format string, a ...interface{}) { panic(specErr{fmt.Sprintf(format, a...)}) }

func (ex *Exec) evalBool(env *SpecEnv, c *Clause) *Term {
	defer func() {
		if r := recover(); r != nil {
			if se, ok := r.(specErr); ok {
				panic(specErr{fmt.Sprintf("%s: %s (in %q)", c.Where, se.msg, c.Text)})
			}
			panic(r)
		}
	}()
	v := ex.evalSpec(env, c.E)
	if len(v.L) != 1 || v.L[0].sort != SBool {
		sfail("clause is not boolean")
	}
	return v.L[0]
}

func (ex *Exec) pkgOf(path string) *types.Package {
	if p := ex.eng.typesPkgs[path]; p != nil {
		return p
	}
	return nil
}

// lookupImport resolves an import alias/name used in the contract's package.
func (ex *Exec) lookupImport(env *SpecEnv, name string) *types.Package {
	if m := ex.eng.importNames[env.pkgPath]; m != nil {
		if p, ok := m[name]; ok {
			return ex.eng.typesPkgs[p]
		}
	}
	if p, ok := ex.eng.globalImports[name]; ok {
		return ex.eng.typesPkgs[p]
	}
	return nil
}

func (ex *Exec) resolveType(env *SpecEnv, text string) types.Type {
	text = strings.TrimSpace(text)
	switch text {
	case "int":
		return types.Typ[types.Int]
	case "int64":
		return types.Typ[types.Int64]
	case "int32":
		return types.Typ[types.Int32]
	case "uint64":
		return types.Typ[types.Uint64]
	case "uint32":
		return types.Typ[types.Uint32]
	case "bool":
		return tBool
	case "string":
		return tString
	case "real", "float64":
		return types.Typ[types.Float64]
	case "mathint":
		return tInt
	}
	if strings.HasPrefix(text, "*") {
		return types.NewPointer(ex.resolveType(env, text[1:]))
	}
	if strings.HasPrefix(text, "[]") {
		return types.NewSlice(ex.resolveType(env, text[2:]))
	}
	if strings.HasPrefix(text, "map[") {
		end := matchBracket(text, 3)
		return types.NewMap(ex.resolveType(env, text[4:end]), ex.resolveType(env, text[end+1:]))
	}
	if i := strings.LastIndex(text, "."); i >= 0 {
		pk := ex.lookupImport(env, text[:i])
		if pk == nil {
			pk = ex.eng.typesPkgs[text[:i]]
		}
		if pk == nil {
			sfail("unknown package %q in type %q", text[:i], text)
		}
		o := pk.Scope().Lookup(text[i+1:])
		if tn, ok := o.(*types.TypeName); ok {
			return tn.Type()
		}
		sfail("unknown type %q", text)
	}
	if pk := ex.pkgOf(env.pkgPath); pk != nil {
		if tn, ok := pk.Scope().Lookup(text).(*types.TypeName); ok {
			return tn.Type()
		}
	}
	if tn, ok := types.Universe.Lookup(text).(*types.TypeName); ok {
		return tn.Type()
	}
	sfail("unknown type %q (package %s)", text, env.pkgPath)
	return nil
}

func matchBracket(s string, open int) int {
	d := 0
	for i := open; i < len(s); i++ {
		switch s[i] {
		case '[':
			d++
		case ']':
			d--
			if d == 0 {
				return i
			}
		}
	}
	return -1
}

// place is an addressable spec location.
func (ex *Exec) evalPlace(env *SpecEnv, e *SExpr) (*Loc, bool) {
	switch e.Op {
	case "sel":
		// package-qualified identifiers are not places
		if e.Args[0].Op == "id" {
			if _, ok := env.vars[e.Args[0].Name]; !ok {
				if _, ok := ex.localByName(env, e.Args[0].Name); !ok {
					if ex.lookupImport(env, e.Args[0].Name) != nil {
						return nil, false
					}
				}
			}
		}
		if base, ok := ex.evalPlace(env, e.Args[0]); ok {
			if isStructLike(base.T) {
				return ex.extendLoc(env, base, e.Name), true
			}
			// pointer stored at a place
			pv := ex.ex_load(env, base)
			if derefType(pv.T) != nil {
				return ex.fieldLocOf(env, pv, e.Name), true
			}
			return nil, false
		}
		bv := ex.evalSpec(env, e.Args[0])
		if derefType(bv.T) != nil {
			return ex.fieldLocOf(env, bv, e.Name), true
		}
		return nil, false
	case "index":
		bv := ex.evalSpec(env, e.Args[0])
		if sl, ok := types.Unalias(bv.T).Underlying().(*types.Slice); ok {
			idx := ex.evalSpec(env, e.Args[1]).S()
			return &Loc{Kind: locElem, Base: bv.L[0], Off: bv.L[1], Idx: idx, Obj: sl.Elem(), T: sl.Elem()}, true
		}
		return nil, false
	case "id":
		if e.Name == "result" || strings.HasPrefix(e.Name, "result") {
			return nil, false
		}
		if _, ok := env.vars[e.Name]; ok {
			return nil, false
		}
		// package-level variable
		if pk := ex.pkgOf(env.pkgPath); pk != nil {
			if v, ok := pk.Scope().Lookup(e.Name).(*types.Var); ok {
				return ex.globalLoc(v), true
			}
		}
	}
	return nil, false
}

func (ex *Exec) globalLoc(v *types.Var) *Loc {
	name := "G_" + sanitize(v.Pkg().Path()+"."+v.Name())
	return &Loc{Kind: locField, Base: Int(1), Obj: globalObj{name: name, T: v.Type()}, T: v.Type()}
}

func (ex *Exec) ex_load(env *SpecEnv, loc *Loc) Val { return ex.load(env.st, loc) }

// extendLoc selects field f (possibly promoted) below a struct place.
func (ex *Exec) extendLoc(env *SpecEnv, base *Loc, f string) *Loc {
	cur := *base
	obj, idx, _ := types.LookupFieldOrMethod(cur.T, true, ex.pkgOf(env.pkgPath), f)
	if obj == nil {
		if n, ok := types.Unalias(cur.T).(*types.Named); ok {
			obj, idx, _ = types.LookupFieldOrMethod(cur.T, true, n.Obj().Pkg(), f)
		}
	}
	if _, isVar := obj.(*types.Var); obj == nil || !isVar {
		sfail("no field %q in %v", f, cur.T)
	}
	for _, k := range idx {
		t := cur.T
		if p := derefType(t); p != nil {
			// embedded pointer: load and deref
			pv := ex.load(env.st, &cur)
			cur = Loc{Kind: locField, Base: pv.S(), Obj: p, T: p}
			t = p
		}
		stt := types.Unalias(t).Underlying().(*types.Struct)
		fld := stt.Field(k)
		cur.Prefix += "." + fld.Name()
		cur.T = fld.Type()
	}
	return &cur
}

// fieldLocOf: field f of the object a pointer value points to.
func (ex *Exec) fieldLocOf(env *SpecEnv, p Val, f string) *Loc {
	var base *Loc
	if p.Loc != nil {
		base = p.Loc
	} else {
		et := derefType(p.T)
		if et == nil {
			sfail("selector .%s on non-pointer %v", f, p.T)
		}
		base = &Loc{Kind: locField, Base: p.S(), Obj: et, T: et}
	}
	return ex.extendLoc(env, base, f)
}

func (ex *Exec) localByName(env *SpecEnv, name string) (*Cell, bool) {
	if env.frame == nil {
		return nil, false
	}
	var best *Cell
	for _, c := range env.frame.cells {
		if c.Name != name {
			continue
		}
		if _, live := env.st.cells[c]; !live {
			continue
		}
		if best == nil || c.pos > best.pos {
			best = c
		}
	}
	return best, best != nil
}

func numLit(e *SExpr) Val {
	if e.Op == "int" {
		v, _ := new(big.Int).SetString(e.Name, 10)
		return ival(IntBig(v))
	}
	r, _ := new(big.Rat).SetString(e.Name)
	return rval(RealRat(r))
}

func (ex *Exec) evalSpec(env *SpecEnv, e *SExpr) Val {
	switch e.Op {
	case "int", "float":
		return numLit(e)
	case "str":
		return Val{T: tString, L: []*Term{ex.eng.strLit(e.Name)}}
	case "id":
		return ex.evalIdent(env, e.Name)
	case "sel":
		// qualified identifier?
		if e.Args[0].Op == "id" {
			if _, ok := env.vars[e.Args[0].Name]; !ok {
				if _, isLocal := ex.localByName(env, e.Args[0].Name); !isLocal {
					if pk := ex.lookupImport(env, e.Args[0].Name); pk != nil {
						return ex.pkgObject(env, pk, e.Name)
					}
				}
			}
		}
		if loc, ok := ex.evalPlace(env, e); ok {
			v := ex.load(env.st, loc)
			return v
		}
		bv := ex.evalSpec(env, e.Args[0])
		if isStructLike(bv.T) {
			_, idx, _ := types.LookupFieldOrMethod(bv.T, false, ex.pkgOf(env.pkgPath), e.Name)
			if idx == nil {
				if n, ok := types.Unalias(bv.T).(*types.Named); ok {
					_, idx, _ = types.LookupFieldOrMethod(bv.T, false, n.Obj().Pkg(), e.Name)
				}
			}
			if idx == nil {
				sfail("no field %q in %v", e.Name, bv.T)
			}
			cur := bv
			for _, k := range idx {
				stt := types.Unalias(cur.T).Underlying().(*types.Struct)
				fld := stt.Field(k)
				lo, hi := subRange(cur.T, "."+fld.Name())
				cur = Val{T: fld.Type(), L: cur.L[lo:hi]}
			}
			return cur
		}
		sfail("cannot select .%s from %v", e.Name, bv.T)
	case "index":
		bv := ex.evalSpec(env, e.Args[0])
		if st, ok := bv.T.(seenType); ok {
			_ = st
			k := ex.evalSpec(env, e.Args[1])
			return bval(Select(bv.L[0], k.L[0]))
		}
		switch u := types.Unalias(bv.T).Underlying().(type) {
		case *types.Slice:
			loc, _ := ex.evalPlace(env, e)
			return ex.load(env.st, loc)
		case *types.Map:
			k := ex.coerce(ex.evalSpec(env, e.Args[1]), u.Key())
			return ex.mapGet(env.st, bv.T, bv.S(), ex.packKey(env.st, u, k))
		case *types.Array:
			idx := ex.evalSpec(env, e.Args[1]).S()
			out := Val{T: u.Elem(), L: make([]*Term, len(bv.L))}
			for i := range bv.L {
				out.L[i] = Select(bv.L[i], idx)
			}
			return out
		}
		sfail("cannot index %v", bv.T)
	case "unary":
		v := ex.evalSpec(env, e.Args[0])
		if e.Name == "!" {
			return bval(Not(v.S()))
		}
		return Val{T: v.T, L: []*Term{Neg(v.S())}}
	case "binary":
		return ex.evalBinary(env, e)
	case "cond":
		c := ex.evalSpec(env, e.Args[0]).S()
		a := ex.evalSpec(env, e.Args[1])
		b := ex.evalSpec(env, e.Args[2])
		a, b = ex.unify(a, b)
		return IteVal(c, a, b)
	case "forall", "exists":
		ne := env.child()
		var bvs []*Term
		var guards []*Term
		// a two-state body (mentions old(...)) talks about objects that exist in both states: its reference variables
		// range over what was allocated in the old state; otherwise over what is allocated now
		wmQ := env.st.wm
		if env.old != nil && env.old.st != nil && ex.mentionsOld(env.pkgPath, e.Args[0], map[*SpecFunc]bool{}) {
			wmQ = env.old.st.wm
		}
		for _, v := range e.Vars {
			t := ex.resolveType(ne, v.Type)
			ls := Layout(t)
			val := Val{T: t, L: make([]*Term, len(ls))}
			for i, l := range ls {
				ex.boundN++
				bt := Bound(fmt.Sprintf("%s%s_%d", sanitize(v.Name), sanitize(l.Path), ex.boundN), l.Sort)
				val.L[i] = bt
				bvs = append(bvs, bt)
				// a quantified reference ranges over the objects allocated in the state the quantifier is evaluated in
				// (nil included); unallocated ids are not objects, and what the heaps hold there means nothing
				switch {
				case strings.HasSuffix(l.Path, "#arr"):
					guards = append(guards, Ge(bt, Int(0)))
					if l.Ref != "" {
						guards = append(guards, Le(bt, ex.wmGet(wmQ, l.Ref)))
					}
				case strings.HasSuffix(l.Path, "#off"), strings.HasSuffix(l.Path, "#len"):
					guards = append(guards, Ge(bt, Int(0)))
				case l.T != nil:
					switch types.Unalias(l.T).Underlying().(type) {
					case *types.Pointer, *types.Map:
						guards = append(guards, Ge(bt, Int(0)))
						if l.Ref != "" {
							guards = append(guards, Le(bt, ex.wmGet(wmQ, l.Ref)))
						}
					}
				}
			}
			ne.vars[v.Name] = val
		}
		body := ex.evalSpec(ne, e.Args[0]).S()
		if len(guards) > 0 {
			if e.Op == "forall" {
				body = Implies(And(guards...), body)
			} else {
				body = And(And(guards...), body)
			}
		}
		var pats [][]*Term
		for _, p := range e.Pats {
			var pt []*Term
			clean := true
			for _, x := range p {
				for _, t := range ex.evalSpec(ne, x).L {
					if patternOK(t) {
						pt = append(pt, t)
					} else {
						clean = false
						// decompose into alternative single-term patterns
						for _, sub := range patternParts(t, bvs) {
							pats = append(pats, []*Term{sub})
						}
					}
				}
			}
			if clean && len(pt) > 0 {
				pats = append(pats, pt)
			}
		}
		return bval(Quant(e.Op, bvs, body, pats...))
	case "call":
		return ex.evalCall(env, e)
	case "slice":
		sfail("slice expressions are not supported in specs")
	}
	sfail("cannot evaluate %s", e)
	return Val{}
}

// mentionsOld: does the expression (looking through spec function macros) use old(...)?
func (ex *Exec) mentionsOld(pkgPath string, e *SExpr, seen map[*SpecFunc]bool) bool {
	if e == nil {
		return false
	}
	if e.Op == "call" && len(e.Args) > 0 && e.Args[0].Op == "id" {
		if e.Args[0].Name == "old" {
			return true
		}
		if sf := ex.eng.findSpecFunc(pkgPath, e.Args[0].Name); sf != nil && sf.Body != nil && !seen[sf] {
			seen[sf] = true
			if ex.mentionsOld(sf.PkgPath, sf.Body, seen) {
				return true
			}
		}
	}
	for _, a := range e.Args {
		if ex.mentionsOld(pkgPath, a, seen) {
			return true
		}
	}
	for _, ps := range e.Pats {
		for _, p := range ps {
			if ex.mentionsOld(pkgPath, p, seen) {
				return true
			}
		}
	}
	return false
}

func (ex *Exec) evalIdent(env *SpecEnv, name string) Val {
	if v, ok := env.vars[name]; ok {
		return v
	}
	switch name {
	case "nil":
		return Val{T: tNil, L: []*Term{Int(0)}}
	case "true":
		return bval(True)
	case "false":
		return bval(False)
	case "$i":
		return ex.rangeIndex(env)
	case "$seen":
		return ex.rangeSeen(env)
	case "$range":
		return ex.rangeSlice(env)
	case "$n":
		return ex.rangeCount(env)
	}
	if c, ok := ex.localByName(env, name); ok {
		return env.st.cells[c]
	}
	if env.frame != nil {
		if v, ok := env.frame.params[name]; ok {
			return v
		}
	}
	if pk := ex.pkgOf(env.pkgPath); pk != nil {
		if o := pk.Scope().Lookup(name); o != nil {
			return ex.objectVal(env, o)
		}
	}
	sfail("unknown identifier %q", name)
	return Val{}
}

func (ex *Exec) pkgObject(env *SpecEnv, pk *types.Package, name string) Val {
	o := pk.Scope().Lookup(name)
	if o == nil {
		sfail("unknown %s.%s", pk.Path(), name)
	}
	return ex.objectVal(env, o)
}

func (ex *Exec) objectVal(env *SpecEnv, o types.Object) Val {
	switch x := o.(type) {
	case *types.Const:
		return ex.constToVal(x.Type(), x.Val())
	case *types.Var:
		return ex.load(env.st, ex.globalLoc(x))
	}
	sfail("%s is not a value", o.Name())
	return Val{}
}

func (ex *Exec) constToVal(t types.Type, c constant.Value) Val {
	switch c.Kind() {
	case constant.Bool:
		return Val{T: t, L: []*Term{Bool(constant.BoolVal(c))}}
	case constant.String:
		return Val{T: t, L: []*Term{ex.eng.strLit(constant.StringVal(c))}}
	case constant.Int:
		bi, _ := new(big.Int).SetString(c.ExactString(), 10)
		if isFloatT(t) {
			return Val{T: t, L: []*Term{RealRat(new(big.Rat).SetInt(bi))}}
		}
		return Val{T: t, L: []*Term{IntBig(bi)}}
	case constant.Float:
		r, _ := new(big.Rat).SetString(c.ExactString())
		return Val{T: t, L: []*Term{RealRat(r)}}
	}
	sfail("unsupported constant")
	return Val{}
}

func (ex *Exec) rangeIndex(env *SpecEnv) Val {
	if env.frame == nil || env.loopHdr == nil {
		sfail("$i outside a loop clause")
	}
	for _, ins := range env.loopHdr.Instrs {
		if u, ok := ins.(*ssa.UnOp); ok {
			if a, ok := u.X.(*ssa.Alloc); ok && a.Comment == "rangeindex" {
				c := env.frame.cells[a]
				if c == nil {
					sfail("$i: range index cell not found")
				}
				return Val{T: types.Typ[types.Int], L: []*Term{Add(env.st.cells[c].S(), Int(1))}}
			}
		}
	}
	sfail("$i: loop is not a range over a slice")
	return Val{}
}

// rangeSlice returns the slice value a `range` loop iterates over.
func (ex *Exec) rangeSlice(env *SpecEnv) Val {
	frame, hdr := env.frame, env.loopHdr
	if frame == nil || hdr == nil {
		frame, hdr = env.lframe, env.lhdr
	}
	if frame == nil || hdr == nil {
		sfail("$range outside a loop clause")
	}
	for _, ins := range hdr.Instrs {
		if b, ok := ins.(*ssa.BinOp); ok {
			if c, ok := b.Y.(*ssa.Call); ok {
				if bi, ok := c.Call.Value.(*ssa.Builtin); ok && bi.Name() == "len" {
					if v, ok := frame.regs[c.Call.Args[0]]; ok {
						return v
					}
				}
			}
		}
	}
	sfail("$range: loop is not a range over a slice")
	return Val{}
}

func (ex *Exec) rangeCount(env *SpecEnv) Val {
	if env.frame == nil || env.loopHdr == nil {
		sfail("$n outside a loop clause")
	}
	for _, ins := range env.loopHdr.Instrs {
		if n, ok := ins.(*ssa.Next); ok {
			if rg, ok := n.Iter.(*ssa.Range); ok {
				if it := env.frame.ranges[rg]; it != nil && it.count != nil {
					if v, ok := env.st.cells[it.count]; ok {
						return Val{T: types.Typ[types.Int], L: v.L}
					}
					return Val{T: types.Typ[types.Int], L: []*Term{Int(0)}}
				}
			}
		}
	}
	sfail("$n: loop is not a range over a map")
	return Val{}
}

func (ex *Exec) rangeSeen(env *SpecEnv) Val {
	if env.frame == nil || env.loopHdr == nil {
		sfail("$seen outside a loop clause")
	}
	for _, ins := range env.loopHdr.Instrs {
		if n, ok := ins.(*ssa.Next); ok {
			if rg, ok := n.Iter.(*ssa.Range); ok {
				if it := env.frame.ranges[rg]; it != nil {
					return env.st.cells[it.seen]
				}
			}
		}
	}
	sfail("$seen: loop is not a range over a map")
	return Val{}
}

func isNumeric(v Val) bool {
	return len(v.L) == 1 && (v.L[0].sort == SInt || v.L[0].sort == SReal)
}

// unify makes two values comparable (nil literals, untyped numbers, string literals).
func (ex *Exec) unify(a, b Val) (Val, Val) {
	if a.T == tNil && b.T != tNil {
		return ZeroVal(b.T), b
	}
	if b.T == tNil && a.T != tNil {
		return a, ZeroVal(a.T)
	}
	if len(a.L) == 1 && len(b.L) == 1 {
		if a.L[0].sort == SInt && b.L[0].sort == SReal {
			return Val{T: b.T, L: []*Term{ToReal(a.L[0])}}, b
		}
		if a.L[0].sort == SReal && b.L[0].sort == SInt {
			return a, Val{T: a.T, L: []*Term{ToReal(b.L[0])}}
		}
	}
	return a, b
}

func (ex *Exec) coerce(v Val, t types.Type) Val {
	if v.T == tNil {
		return ZeroVal(t)
	}
	ls := Layout(t)
	if len(ls) == 1 && len(v.L) == 1 {
		if ls[0].Sort == SReal && v.L[0].sort == SInt {
			return Val{T: t, L: []*Term{ToReal(v.L[0])}}
		}
	}
	return Val{T: t, L: v.L, Loc: v.Loc}
}

func (ex *Exec) evalBinary(env *SpecEnv, e *SExpr) Val {
	op := e.Name
	switch op {
	case "&&":
		a := ex.evalSpec(env, e.Args[0]).S()
		if a == False {
			return bval(False)
		}
		return bval(And(a, ex.evalSpec(env, e.Args[1]).S()))
	case "||":
		a := ex.evalSpec(env, e.Args[0]).S()
		if a == True {
			return bval(True)
		}
		return bval(Or(a, ex.evalSpec(env, e.Args[1]).S()))
	case "==>":
		a := ex.evalSpec(env, e.Args[0]).S()
		if a == False {
			return bval(True)
		}
		return bval(Implies(a, ex.evalSpec(env, e.Args[1]).S()))
	case "<==>":
		return bval(Iff(ex.evalSpec(env, e.Args[0]).S(), ex.evalSpec(env, e.Args[1]).S()))
	}
	a := ex.evalSpec(env, e.Args[0])
	b := ex.evalSpec(env, e.Args[1])
	a, b = ex.unify(a, b)
	switch op {
	case "==", "!=":
		var eq *Term
		if len(a.L) != len(b.L) {
			sfail("cannot compare %v with %v", a.T, b.T)
		}
		if _, ok := types.Unalias(a.T).Underlying().(*types.Slice); ok && (isNilConstVal(b) || isNilConstVal(a)) {
			eq = ex.valEq(a, b)
		} else {
			var cs []*Term
			for i := range a.L {
				cs = append(cs, Eq(a.L[i], b.L[i]))
			}
			eq = And(cs...)
		}
		if op == "!=" {
			eq = Not(eq)
		}
		return bval(eq)
	}
	if a.T != nil && b.T != nil && isStringT(a.T) && isStringT(b.T) && len(a.L) == 1 {
		switch op {
		case "<":
			return bval(UF("strlt", SBool, a.S(), b.S()))
		case ">":
			return bval(UF("strlt", SBool, b.S(), a.S()))
		case "+":
			return Val{T: a.T, L: []*Term{ex.strConcat(a.S(), b.S())}}
		}
	}
	if !isNumeric(a) || !isNumeric(b) {
		sfail("operator %s on %v and %v", op, a.T, b.T)
	}
	x, y := a.S(), b.S()
	rt := a.T
	if a.T == tInt || a.T == tReal {
		rt = b.T
	}
	switch op {
	case "<":
		return bval(Lt(x, y))
	case "<=":
		return bval(Le(x, y))
	case ">":
		return bval(Gt(x, y))
	case ">=":
		return bval(Ge(x, y))
	case "+":
		return Val{T: rt, L: []*Term{Add(x, y)}}
	case "-":
		return Val{T: rt, L: []*Term{Sub(x, y)}}
	case "*":
		return Val{T: rt, L: []*Term{Mul(x, y)}}
	case "/":
		if x.sort == SReal || y.sort == SReal {
			return Val{T: rt, L: []*Term{RDiv(x, y)}}
		}
		return Val{T: rt, L: []*Term{TDiv(x, y)}}
	case "%":
		return Val{T: rt, L: []*Term{TRem(x, y)}}
	}
	sfail("unknown operator %s", op)
	return Val{}
}

func (ex *Exec) evalCall(env *SpecEnv, e *SExpr) Val {
	fnE := e.Args[0]
	args := e.Args[1:]
	ev := func(i int) Val { return ex.evalSpec(env, args[i]) }
	if fnE.Op == "id" {
		switch fnE.Name {
		case "old":
			oe := env.old
			if oe == nil {
				oe = env
			} else {
				// quantified variables bound in the current env remain visible
				ne := oe.child()
				for k, v := range env.vars {
					if _, ok := ne.vars[k]; !ok {
						ne.vars[k] = v
					} else if len(v.L) > 0 && v.L[0].op == "bound" {
						ne.vars[k] = v
					}
				}
				// $range / $i name SSA registers of the loop being cut: the same values inside old(), read against the old heap
				// (names of locals must keep resolving against the old env, so the frame is passed on separately)
				if ne.frame == nil && ne.loopHdr == nil {
					ne.lframe = env.frame
					if ne.lframe == nil {
						ne.lframe = env.lframe
					}
					ne.lhdr = env.loopHdr
					if ne.lhdr == nil {
						ne.lhdr = env.lhdr
					}
				}
				oe = ne
			}
			return ex.evalSpec(oe, args[0])
		case "len":
			v := ev(0)
			switch u := types.Unalias(v.T).Underlying().(type) {
			case *types.Slice:
				return Val{T: types.Typ[types.Int], L: []*Term{v.L[2]}}
			case *types.Map:
				return Val{T: types.Typ[types.Int], L: []*Term{ex.lenOfMap(env.st, v.T, v.S())}}
			case *types.Basic:
				return Val{T: types.Typ[types.Int], L: []*Term{ex.strLen(env.st, v.S())}}
			case *types.Array:
				return ival(Int(u.Len()))
			}
			sfail("len of %v", v.T)
		case "has":
			m := ev(0)
			mm, ok := types.Unalias(m.T).Underlying().(*types.Map)
			if !ok {
				sfail("has(): not a map: %v", m.T)
			}
			k := ex.coerce(ev(1), mm.Key())
			return bval(ex.mapHas(env.st, m.T, m.S(), ex.packKey(env.st, mm, k)))
		case "val":
			m := ev(0)
			mm, ok := types.Unalias(m.T).Underlying().(*types.Map)
			if !ok {
				sfail("val(): not a map: %v", m.T)
			}
			k := ex.coerce(ev(1), mm.Key())
			return ex.mapGet(env.st, m.T, m.S(), ex.packKey(env.st, mm, k))
		case "max", "min":
			a, b := ex.unify(ev(0), ev(1))
			if fnE.Name == "max" {
				return Val{T: a.T, L: []*Term{Ite(Gt(a.S(), b.S()), a.S(), b.S())}}
			}
			return Val{T: a.T, L: []*Term{Ite(Lt(a.S(), b.S()), a.S(), b.S())}}
		case "max0":
			a := ev(0)
			return Val{T: a.T, L: []*Term{Ite(Gt(a.S(), zeroOf(a.S().sort)), a.S(), zeroOf(a.S().sort))}}
		case "abs":
			a := ev(0)
			return Val{T: a.T, L: []*Term{Ite(Lt(a.S(), zeroOf(a.S().sort)), Neg(a.S()), a.S())}}
		case "ceil":
			return ival(Ceil(ev(0).S()))
		case "floor":
			return ival(Floor(ev(0).S()))
		case "trunc":
			return ival(Trunc(ev(0).S()))
		case "round":
			return rval(roundHalfAway(ToReal(ev(0).S())))
		case "real":
			return rval(ToReal(ev(0).S()))
		case "tdiv":
			return ival(TDiv(ev(0).S(), ev(1).S()))
		case "ediv":
			return ival(EDiv(ev(0).S(), ev(1).S()))
		case "emod":
			return ival(EMod(ev(0).S(), ev(1).S()))
		case "fresh":
			v := ev(0)
			if env.wmPre == nil {
				sfail("fresh() outside a postcondition")
			}
			if a := args[0]; a.Op == "call" && len(a.Args) == 2 && a.Args[0].Op == "id" && a.Args[0].Name == "arr" {
				v = ex.evalSpec(env, a.Args[1]) // fresh(arr(s)): the backing array of slice s
			}
			key := refKeyOf(v.T)
			if key == "" {
				sfail("fresh(): %v is not a reference into a modelled heap", v.T)
			}
			return bval(And(Gt(v.L[0], ex.wmGet(env.wmPre, key)), Le(v.L[0], ex.wmGet(env.st.wm, key))))
		case "allocated":
			// allocated(x): x existed at function entry (or in the pre-state of the call)
			v := ev(0)
			if a := args[0]; a.Op == "call" && len(a.Args) == 2 && a.Args[0].Op == "id" && a.Args[0].Name == "arr" {
				v = ex.evalSpec(env, a.Args[1])
			}
			wm := env.st.wm
			if env.old != nil {
				wm = env.old.st.wm
			}
			key := refKeyOf(v.T)
			if key == "" {
				sfail("allocated(): %v is not a reference into a modelled heap", v.T)
			}
			return bval(And(Gt(v.L[0], Int(0)), Le(v.L[0], ex.wmGet(wm, key))))
		case "int", "int64", "int32", "uint64", "uint32", "uint":
			v := ev(0)
			t := ex.resolveType(env, fnE.Name)
			if v.S().sort == SReal {
				return Val{T: t, L: []*Term{Trunc(v.S())}}
			}
			return Val{T: t, L: []*Term{v.S()}}
		case "float64":
			return Val{T: types.Typ[types.Float64], L: []*Term{ToReal(ev(0).S())}}
		case "string":
			return Val{T: tString, L: ev(0).L}
		case "seenkey":
			sv := ex.rangeSeen(env)
			return bval(Select(sv.L[0], ev(0).L[0]))
		case "lastresult":
			// lastresult("Callee") / lastresult("Callee", i): (i-th) result of the latest call to a matching callee
			if args[0].Op != "str" {
				sfail("lastresult(): string literal expected")
			}
			c := ex.resCells[args[0].Name]
			if c == nil {
				sfail("lastresult(%q): not registered", args[0].Name)
			}
			v, ok := env.st.cells[c]
			if !ok || c.T == nil {
				sfail("lastresult(%q): no call to a matching callee precedes this point on any path", args[0].Name)
			}
			if tt, isT := c.T.(*types.Tuple); isT {
				idx := 0
				if len(args) > 1 {
					if args[1].Op != "int" {
						sfail("lastresult(): literal index expected")
					}
					fmt.Sscanf(args[1].Name, "%d", &idx)
				}
				if idx >= tt.Len() {
					sfail("lastresult(): index out of range")
				}
				off := 0
				for i := 0; i < idx; i++ {
					off += len(Layout(tt.At(i).Type()))
				}
				n := len(Layout(tt.At(idx).Type()))
				return Val{T: tt.At(idx).Type(), L: v.L[off : off+n]}
			}
			return Val{T: c.T, L: v.L}
		case "calls":
			if args[0].Op != "str" {
				sfail("calls(): string literal expected")
			}
			c := ex.callCells[args[0].Name]
			if c == nil {
				sfail("calls(%q): counter not registered", args[0].Name)
			}
			if v, ok := env.st.cells[c]; ok {
				return Val{T: types.Typ[types.Int], L: v.L}
			}
			return Val{T: types.Typ[types.Int], L: []*Term{Int(0)}}
		case "deref":
			v := ev(0)
			if v.Loc != nil {
				return ex.load(env.st, v.Loc)
			}
			et := derefType(v.T)
			if et == nil {
				sfail("deref of non-pointer %v", v.T)
			}
			return ex.load(env.st, &Loc{Kind: locField, Base: v.S(), Obj: et, T: et})
		case "arr":
			v := ev(0)
			return ival(v.L[0])
		case "off":
			v := ev(0)
			return ival(v.L[1])
		case "typeis":
			// typeis(x, T): dynamic type of interface x is T
			v := ev(0)
			t := ex.resolveType(env, args[1].String())
			return bval(And(Ne(v.S(), Int(0)), Eq(UF("typeof", SInt, v.S()), ex.typeTag(t))))
		case "payload":
			v := ev(0)
			t := ex.resolveType(env, args[1].String())
			ls := Layout(t)
			out := Val{T: t, L: make([]*Term, len(ls))}
			for i, l := range ls {
				out.L[i] = UF("payload_"+heapKeyT(t)+"_"+sanitize(l.Path), l.Sort, v.S())
			}
			ex.typeFacts(env.st, out)
			return out
		}
		// spec function?
		if sf := ex.eng.findSpecFunc(env.pkgPath, fnE.Name); sf != nil {
			return ex.callSpecFunc(env, sf, args)
		}
		// package-level function of the contract's package: pure observer?
		if pk := ex.pkgOf(env.pkgPath); pk != nil {
			if o := pk.Scope().Lookup(fnE.Name); o != nil {
				switch x := o.(type) {
				case *types.Func:
					return ex.specPureCall(env, x.FullName(), x.Type().(*types.Signature), args, nil)
				case *types.TypeName:
					v := ev(0)
					return ex.coerce(v, x.Type())
				}
			}
		}
		sfail("unknown function %q", fnE.Name)
	}
	if fnE.Op == "sel" {
		// pkg.F(args) | x.Method(args)
		if fnE.Args[0].Op == "id" {
			if _, isVar := env.vars[fnE.Args[0].Name]; !isVar {
				if _, isLocal := ex.localByName(env, fnE.Args[0].Name); !isLocal {
					if pk := ex.lookupImport(env, fnE.Args[0].Name); pk != nil {
						o := pk.Scope().Lookup(fnE.Name)
						switch x := o.(type) {
						case *types.Func:
							return ex.specPureCall(env, x.FullName(), x.Type().(*types.Signature), args, nil)
						case *types.TypeName:
							return ex.coerce(ev(0), x.Type())
						}
						if sf := ex.eng.findSpecFunc(pk.Path(), fnE.Name); sf != nil {
							return ex.callSpecFunc(env, sf, args)
						}
						sfail("unknown function %s.%s", pk.Path(), fnE.Name)
					}
				}
			}
		}
		recv := ex.evalSpec(env, fnE.Args[0])
		return ex.specMethodCall(env, recv, fnE.Name, args)
	}
	sfail("cannot call %s", fnE)
	return Val{}
}

func (ex *Exec) callSpecFunc(env *SpecEnv, sf *SpecFunc, args []*SExpr) Val {
	if len(args) != len(sf.Params) {
		sfail("spec func %s: %d arguments, want %d", sf.Name, len(args), len(sf.Params))
	}
	if env.depth > 40 {
		sfail("spec func recursion too deep in %s", sf.Name)
	}
	ne := &SpecEnv{ex: ex, pkgPath: sf.PkgPath, vars: map[string]Val{}, st: env.st, old: env.old, wmPre: env.wmPre, depth: env.depth + 1}
	var flat []*Term
	for i, p := range sf.Params {
		v := ex.evalSpec(env, args[i])
		t := ex.resolveType(ne, p.Type)
		v = ex.coerce(v, t)
		ne.vars[p.Name] = v
		flat = append(flat, v.L...)
	}
	if sf.Opaque && !sf.Uninter {
		return ex.opaqueApp(ne, sf, flat)
	}
	if sf.Uninter {
		rt := ex.resolveType(ne, sf.Ret)
		ls := Layout(rt)
		out := Val{T: rt, L: make([]*Term, len(ls))}
		for i, l := range ls {
			out.L[i] = UF("spec_"+sanitize(sf.Name)+sanitize(l.Path), l.Sort, flat...)
		}
		return out
	}
	if env.old != nil {
		// old() inside a spec function body refers to the caller's old state with the callee's parameters
		oe := &SpecEnv{ex: ex, pkgPath: sf.PkgPath, vars: ne.vars, st: env.old.st, depth: env.depth + 1}
		ne.old = oe
	}
	v := ex.evalSpec(ne, sf.Body)
	if sf.Ret != "" {
		rt := ex.resolveType(ne, sf.Ret)
		v = ex.coerce(v, rt)
	}
	return v
}

func (ex *Exec) specPureCall(env *SpecEnv, fullName string, sig *types.Signature, args []*SExpr, recv *Val) Val {
	key := fullName
	if !ex.eng.isPure(key) {
		sfail("function %s used in a spec is not declared pure", key)
	}
	var vals []Val
	if recv != nil {
		vals = append(vals, *recv)
	}
	ps := sig.Params()
	for i, a := range args {
		v := ex.evalSpec(env, a)
		if i < ps.Len() {
			v = ex.coerce(v, ps.At(i).Type())
		}
		vals = append(vals, v)
	}
	ex.note("pure", key)
	return ex.pureCall(env.st, key, vals, resultType(sig))
}

func (ex *Exec) specMethodCall(env *SpecEnv, recv Val, name string, args []*SExpr) Val {
	// Quantity methods
	qt := recv.T
	if p := derefType(qt); p != nil {
		qt = p
	}
	if isQuantity(qt) {
		var q *Term
		if isQuantity(recv.T) {
			q = recv.S()
		} else {
			q = ex.quantityOf(env.st, recv, 0)
		}
		switch name {
		case "Value":
			return Val{T: types.Typ[types.Int64], L: []*Term{Ceil(q)}}
		case "MilliValue":
			return Val{T: types.Typ[types.Int64], L: []*Term{Ceil(Mul(q, RealInt(1000)))}}
		case "IsZero":
			return bval(Eq(q, RealInt(0)))
		case "Sign":
			return ival(signTerm(q))
		case "Cmp":
			o := ex.evalSpec(env, args[0])
			return ival(signTerm(Sub(q, ToReal(o.S()))))
		}
	}
	if _, ok := types.Unalias(recv.T).Underlying().(*types.Map); ok && strings.HasPrefix(typeName(recv.T), pSets) || strings.HasPrefix(types.TypeString(types.Unalias(recv.T), nil), pSets) {
		mm := types.Unalias(recv.T).Underlying().(*types.Map)
		switch name {
		case "Has":
			k := ex.coerce(ex.evalSpec(env, args[0]), mm.Key())
			return bval(ex.mapHas(env.st, recv.T, recv.S(), ex.packKey(env.st, mm, k)))
		case "Len":
			return Val{T: types.Typ[types.Int], L: []*Term{ex.lenOfMap(env.st, recv.T, recv.S())}}
		}
	}
	// time
	if len(recv.L) == 1 && (typeName(recv.T) == qTime || typeName(recv.T) == qMetaTime) {
		t := recv.S()
		switch name {
		case "IsZero":
			return bval(Eq(t, Int(0)))
		case "Before":
			return bval(Lt(t, ex.evalSpec(env, args[0]).S()))
		case "After":
			return bval(Gt(t, ex.evalSpec(env, args[0]).S()))
		}
	}
	// declared-pure method
	obj, _, _ := types.LookupFieldOrMethod(recv.T, true, ex.pkgOf(env.pkgPath), name)
	if obj == nil {
		if n, ok := types.Unalias(qt).(*types.Named); ok {
			obj, _, _ = types.LookupFieldOrMethod(recv.T, true, n.Obj().Pkg(), name)
		}
	}
	if f, ok := obj.(*types.Func); ok {
		sig := f.Type().(*types.Signature)
		key := methodKey(f)
		if types.IsInterface(recv.T) {
			key = "(" + types.TypeString(types.Unalias(recv.T), nil) + ")." + name
		}
		if sf := ex.eng.findSpecFunc(env.pkgPath, key); sf != nil {
			_ = sf
		}
		return ex.specPureCall(env, key, sig, args, &recv)
	}
	sfail("unknown method %s on %v", name, recv.T)
	return Val{}
}

func methodKey(f *types.Func) string {
	sig := f.Type().(*types.Signature)
	if sig.Recv() == nil {
		return f.FullName()
	}
	return "(" + types.TypeString(sig.Recv().Type(), nil) + ")." + f.Name()
}

// loopEnv builds the environment for loop clauses: parameters (entry values), locals by name, old = entry.
func (ex *Exec) loopEnv(fr *Frame, h *ssa.BasicBlock, st *State, li *loopInfo) *SpecEnv {
	env := ex.newEnv(fr.con.PkgPath, st)
	env.frame = fr
	env.loopHdr = h
	env.old = fr.env0
	env.wmPre = ex.entry.wm
	for k, v := range fr.params {
		env.vars["$entry_"+k] = v
	}
	if fr.env0 != nil {
		for k, v := range fr.env0.vars {
			if _, isParam := fr.params[k]; !isParam {
				env.vars[k] = v // lets
			}
		}
	}
	return env
}

var nonPatternOps = map[string]bool{"and": true, "or": true, "not": true, "ite": true, "=": true, "<=": true, "<": true, "=>": true,
	"+": true, "-": true, "*": true, "/": true, "div": true, "mod": true, "to_real": true, "to_int": true, "forall": true, "exists": true,
	"true": true, "false": true, "int": true, "real": true, "store": true}

func patternOK(t *Term) bool {
	if t.op == "bound" || t.op == "const" {
		return t.op == "const" || true
	}
	if nonPatternOps[t.op] {
		return false
	}
	for _, a := range t.args {
		if a.op == "int" || a.op == "real" {
			continue
		}
		if !patternOK(a) {
			return false
		}
	}
	return true
}

func mentionsAll(t *Term, bvs []*Term) bool {
	found := map[*Term]bool{}
	var walk func(x *Term)
	seen := map[int]bool{}
	walk = func(x *Term) {
		if seen[x.id] {
			return
		}
		seen[x.id] = true
		if x.op == "bound" {
			found[x] = true
		}
		for _, a := range x.args {
			walk(a)
		}
	}
	walk(t)
	for _, b := range bvs {
		if !found[b] {
			return false
		}
	}
	return true
}

// patternParts returns maximal pattern-friendly sub-terms of t that mention every bound variable.
func patternParts(t *Term, bvs []*Term) []*Term {
	var out []*Term
	seen := map[int]bool{}
	var walk func(x *Term)
	walk = func(x *Term) {
		if seen[x.id] {
			return
		}
		seen[x.id] = true
		if x.op != "bound" && x.op != "const" && len(x.args) > 0 && patternOK(x) && mentionsAll(x, bvs) {
			out = append(out, x)
			return
		}
		for _, a := range x.args {
			walk(a)
		}
	}
	walk(t)
	return out
}

// opaqueApp applies an opaque spec function: an uninterpreted symbol whose definition is asserted once per
// verification as a quantified axiom with the application as its pattern (heap-independent bodies only).
func (ex *Exec) opaqueApp(ne *SpecEnv, sf *SpecFunc, flat []*Term) Val {
	rt := ex.resolveType(ne, sf.Ret)
	ls := Layout(rt)
	if len(ls) != 1 {
		sfail("opaque spec func %s must return a scalar", sf.Name)
	}
	name := "spec_" + sanitize(sf.PkgPath+"."+sf.Name)
	if ex.opaqueDone == nil {
		ex.opaqueDone = map[string]bool{}
	}
	if !ex.opaqueDone[name] {
		ex.opaqueDone[name] = true
		// definitional axiom
		de := &SpecEnv{ex: ex, pkgPath: sf.PkgPath, vars: map[string]Val{}, st: &State{cells: map[*Cell]Val{}, heap: map[string]*Term{}, guard: True, wm: newWMs()}, depth: ne.depth + 1}
		var bvs []*Term
		for _, p := range sf.Params {
			t := ex.resolveType(de, p.Type)
			pl := Layout(t)
			v := Val{T: t, L: make([]*Term, len(pl))}
			for i, l := range pl {
				ex.boundN++
				b := Bound(fmt.Sprintf("%s_%d", sanitize(p.Name), ex.boundN), l.Sort)
				v.L[i] = b
				bvs = append(bvs, b)
			}
			de.vars[p.Name] = v
		}
		nHeaps := len(ex.heapSrt)
		body := ex.coerce(ex.evalSpec(de, sf.Body), rt)
		if len(de.st.heap) > 0 || len(ex.heapSrt) != nHeaps {
			sfail("opaque spec func %s reads the heap; only heap-independent functions can be opaque", sf.Name)
		}
		app := UF(name, ls[0].Sort, bvs...)
		if len(bvs) == 0 {
			ex.assumeRaw(Eq(app, body.S()))
		} else {
			ex.assumeRaw(Forall(bvs, Eq(app, body.S()), []*Term{app}))
		}
	}
	return Val{T: rt, L: []*Term{UF(name, ls[0].Sort, flat...)}}
}
