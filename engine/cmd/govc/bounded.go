package main

// Bounded stand-ins. A clause of a property that no contract within reach decides (it needs cardinalities, sums
// over maps, a progress argument over a cyclic scan, ...) may be covered by an exhaustive run of the REAL function
// over every input up to a stated bound. Such a run is not a proof: it is labelled "bounded" everywhere, is never
// counted among the obligations or the discharged obligations, and a failure carries the concrete failing input.
//
// A stand-in is a Go test file /verif/bounded/<Cxx>_<name>_test.go written for the package of the function:
//
//	//verif:property C10
//	//verif:package pkg/koordlet/qosmanager/plugins/cpusuppress
//	//verif:function calculateBESuppressCPUSetPolicy
//	//verif:bound quick: ...; thorough: ...
//	//verif:stands-in-for <the clause>
//	func TestVerifBounded(t *testing.T) { ... }
//
// It is compiled into the package with `go test -overlay` (nothing is written to the repository), reads the tier
// from VERIF_BOUND_TIER, prints "VERIF-BOUNDED cases=<n> nontrivial=<m>" and, for the first failing input,
// "VERIF-BOUNDED-FAIL <input and what was observed>" before failing.

import (
	"encoding/json"
	"fmt"
	"os"
	"os/exec"
	"path/filepath"
	"regexp"
	"sort"
	"strconv"
	"strings"
	"time"
)

type boundedCheck struct {
	File, Name, Pkg, Function, Bound, StandsFor string
	Src                                         string
}

type boundedResult struct {
	C          boundedCheck
	Status     string // held | failed | build-error
	Cases      int
	Nontrivial int
	FailCase   string
	Output     string
	Secs       float64
}

func loadBounded(verif, prop string) []boundedCheck {
	files, _ := filepath.Glob(filepath.Join(verif, "bounded", prop+"_*_test.go"))
	sort.Strings(files)
	var out []boundedCheck
	for _, f := range files {
		data, err := os.ReadFile(f)
		if err != nil {
			continue
		}
		c := boundedCheck{File: f, Src: string(data)}
		c.Name = strings.TrimSuffix(strings.TrimPrefix(filepath.Base(f), prop+"_"), "_test.go")
		for _, ln := range strings.Split(c.Src, "\n") {
			if !strings.HasPrefix(ln, "//verif:") {
				continue
			}
			kv := strings.SplitN(strings.TrimPrefix(ln, "//verif:"), " ", 2)
			if len(kv) != 2 {
				continue
			}
			v := strings.TrimSpace(kv[1])
			switch kv[0] {
			case "package":
				c.Pkg = v
			case "function":
				c.Function = v
			case "bound":
				c.Bound = v
			case "stands-in-for":
				c.StandsFor = v
			}
		}
		if c.Pkg != "" {
			out = append(out, c)
		}
	}
	return out
}

var boundedStat = regexp.MustCompile(`VERIF-BOUNDED cases=(\d+) nontrivial=(\d+)`)

func runBoundedTest(repo, verif, tier string, c boundedCheck, timeout string) (string, bool) {
	dir := filepath.Join(verif, ".work", fmt.Sprintf("bounded.%d.%s", os.Getpid(), c.Name))
	_ = os.MkdirAll(dir, 0o755)
	defer os.RemoveAll(dir)
	tf := filepath.Join(dir, "zz_verif_bounded_test.go")
	_ = os.WriteFile(tf, []byte(c.Src), 0o644)
	ov := map[string]map[string]string{"Replace": {filepath.Join(repo, c.Pkg, "zz_verif_bounded_test.go"): tf}}
	data, _ := json.Marshal(ov)
	of := filepath.Join(dir, "ov.json")
	_ = os.WriteFile(of, data, 0o644)
	cmd := exec.Command("go", "test", "-overlay", of, "-v", "-vet=off", "-count=1", "-timeout", timeout, "-run", "^TestVerifBounded$", "./"+c.Pkg)
	cmd.Dir = repo
	cmd.Env = append(os.Environ(), "VERIF_BOUND_TIER="+tier)
	out, err := cmd.CombinedOutput()
	return string(out), err != nil
}

func runBounded(r *propRun, c boundedCheck) *boundedResult {
	t0 := time.Now()
	timeout := "600s"
	if r.tier == "thorough" {
		timeout = "3000s"
	}
	out, failed := runBoundedTest(r.repo, r.verif, r.tier, c, timeout)
	res := &boundedResult{C: c, Output: out, Secs: time.Since(t0).Seconds()}
	if m := boundedStat.FindStringSubmatch(out); m != nil {
		res.Cases, _ = strconv.Atoi(m[1])
		res.Nontrivial, _ = strconv.Atoi(m[2])
	}
	switch {
	case !failed && res.Cases > 0:
		res.Status = "held"
	case strings.Contains(out, "VERIF-BOUNDED-FAIL"):
		res.Status = "failed"
		for _, ln := range strings.Split(out, "\n") {
			if i := strings.Index(ln, "VERIF-BOUNDED-FAIL"); i >= 0 {
				res.FailCase = strings.TrimSpace(ln[i+len("VERIF-BOUNDED-FAIL"):])
				break
			}
		}
	case strings.Contains(out, "panic:") && !strings.Contains(out, "[build failed]"):
		res.Status = "failed"
		res.FailCase = "the function panicked: " + firstLines(out[strings.Index(out, "panic:"):], 3)
	default:
		res.Status = "build-error"
	}
	return res
}

func (b *boundedResult) evidence() map[string]interface{} {
	return map[string]interface{}{
		"name": b.C.Name, "function": b.C.Function, "package": b.C.Pkg, "bound": b.C.Bound, "stands_in_for": b.C.StandsFor,
		"result": b.Status, "cases": b.Cases, "nontrivial_cases": b.Nontrivial, "secs": round3(b.Secs),
		"label": "bounded stand-in: exhaustive run of the real function up to the stated bound; NOT a proof, not counted in obligations/discharged",
	}
}
