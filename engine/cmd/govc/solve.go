package main

// Solver race.

import (
	"runtime"
	"bytes"
	"hash/fnv"
	"context"
	"fmt"
	"os"
	"os/exec"
	"path/filepath"
	"strings"
	"sync"
	"time"
)

type Verdict struct {
	Name    string
	Status  string // discharged | failed | covered | vacuous
	Answer  string // unsat | sat | unknown | timeout | error
	Solver  string
	Secs    float64
	File    string
	Size    int
	Model   string
	Detail  string
	Oblig   *Oblig
	FuncKey string
	AltText string // full query tried when the reduced one is not unsat
}

type solverSpec struct {
	name string
	args func(file string, secs int) []string
}

var solvers = map[string]solverSpec{
	"z3-new": {"z3-new", func(f string, s int) []string { return []string{"z3-new", fmt.Sprintf("-T:%d", s), f} }},
	"z3":     {"z3", func(f string, s int) []string { return []string{"z3", fmt.Sprintf("-T:%d", s), f} }},
	"cvc5":   {"cvc5", func(f string, s int) []string { return []string{"cvc5", fmt.Sprintf("--tlimit=%d", s*1000), f} }},
	"z3-new/s1": {"z3-new/s1", func(f string, s int) []string {
		return []string{"z3-new", fmt.Sprintf("-T:%d", s), "smt.random_seed=7", "sat.random_seed=7", "smt.arith.random_initial_value=true", f}
	}},
	"z3-new/s2": {"z3-new/s2", func(f string, s int) []string {
		return []string{"z3-new", fmt.Sprintf("-T:%d", s), "smt.random_seed=42", "smt.qi.eager_threshold=50", f}
	}},
	"z3-new/nombqi": {"z3-new/nombqi", func(f string, s int) []string {
		return []string{"z3-new", fmt.Sprintf("-T:%d", s), "smt.mbqi=false", "smt.random_seed=3", f}
	}},
}

func init() {
	mk := func(name string, extra ...string) {
		solvers[name] = solverSpec{name, func(f string, s int) []string {
			a := []string{"z3-new", fmt.Sprintf("-T:%d", s)}
			a = append(a, extra...)
			return append(a, f)
		}}
	}
	// without array extensionality z3 is incomplete but faster on queries full of heap stores; an unsat stays a proof
	mk("z3-new/noext", "smt.array.extensional=false")
	mk("z3-new/noext2", "smt.array.extensional=false", "smt.random_seed=8", "smt.mbqi=false")
	for i := 1; i <= 12; i++ {
		seed := fmt.Sprintf("smt.random_seed=%d", i*7+1)
		switch i % 4 {
		case 0:
			mk(fmt.Sprintf("z3-new/p%d", i), seed)
		case 1:
			mk(fmt.Sprintf("z3-new/p%d", i), seed, "smt.mbqi=false")
		case 2:
			mk(fmt.Sprintf("z3-new/p%d", i), seed, "smt.mbqi=false", "smt.arith.solver=6")
		case 3:
			mk(fmt.Sprintf("z3-new/p%d", i), seed, "smt.qi.eager_threshold=5", "smt.mbqi=false")
		}
	}
}

// raceSolvers runs several solver configurations concurrently and returns the first decisive answer.
func raceSolvers(names []string, file string, secs int) (string, string, string, float64) {
	type r struct {
		ans, solver, text string
		secs              float64
	}
	ctx, cancel := context.WithCancel(context.Background())
	defer cancel()
	ch := make(chan r, len(names))
	for _, n := range names {
		go func(n string) {
			a, t, el := runSolverCtx(ctx, n, file, secs)
			ch <- r{a, n, t, el}
		}(n)
	}
	best := r{ans: "timeout", solver: "race"}
	for i := 0; i < len(names); i++ {
		x := <-ch
		if x.ans == "sat" && strings.Contains(x.solver, "noext") {
			x.ans = "unknown" // a model found without extensionality need not be a model
		}
		if x.ans == "unsat" || x.ans == "sat" {
			return x.ans, x.solver, x.text, x.secs
		}
		if x.ans == "unknown" && best.ans == "timeout" {
			best = x
		}
		if x.secs > best.secs {
			best.secs = x.secs
		}
	}
	return best.ans, best.solver, best.text, best.secs
}

func runSolver(name, file string, secs int) (string, string, float64) {
	return runSolverCtx(context.Background(), name, file, secs)
}

// procSem bounds the number of solver processes running at once to the number of cores: time limits are wall-clock, so
// a portfolio that oversubscribes the machine turns provable obligations into timeouts.
var procSem = make(chan struct{}, maxInt(4, runtime.NumCPU()))

func maxInt(a, b int) int {
	if a > b {
		return a
	}
	return b
}

// loadScale stretches time limits when other work (another check, the test suite) already keeps the cores busy.
func loadScale() float64 {
	data, err := os.ReadFile("/proc/loadavg")
	if err != nil {
		return 1
	}
	var l1 float64
	if _, err := fmt.Sscanf(string(data), "%f", &l1); err != nil {
		return 1
	}
	f := l1 / float64(runtime.NumCPU())
	switch {
	case f <= 1:
		return 1
	case f > 3:
		return 3
	}
	return f
}

func runSolverCtx(parent context.Context, name, file string, secs int) (string, string, float64) {
	select {
	case procSem <- struct{}{}:
		defer func() { <-procSem }()
	case <-parent.Done():
		return "timeout", "", 0
	}
	secs = int(float64(secs)*loadScale() + 0.5)
	sp := solvers[name]
	argv := sp.args(file, secs)
	ctx, cancel := context.WithTimeout(parent, time.Duration(secs+5)*time.Second)
	defer cancel()
	cmd := exec.CommandContext(ctx, argv[0], argv[1:]...)
	var out bytes.Buffer
	cmd.Stdout = &out
	cmd.Stderr = &out
	t0 := time.Now()
	_ = cmd.Run()
	el := time.Since(t0).Seconds()
	text := out.String()
	first := ""
	for _, ln := range strings.Split(text, "\n") {
		ln = strings.TrimSpace(ln)
		if ln == "" || strings.HasPrefix(ln, "WARNING") || strings.HasPrefix(ln, "(warning") {
			continue
		}
		first = ln
		break
	}
	switch {
	case first == "unsat" || first == "sat" || first == "unknown":
	case strings.Contains(first, "timeout") || ctx.Err() != nil:
		first = "timeout"
	case strings.HasPrefix(text, "(error") || strings.Contains(first, "error"):
		first = "error"
	case first == "":
		first = "timeout"
	default:
		first = "unknown"
	}
	return first, text, el
}

type solveCfg struct {
	workDir  string
	quickT   int
	slowT    int
	tier     string
	parallel int
	keepAll  bool
	short    map[string]bool // obligation names (per goal) that get the first two stages only
	arming   bool            // -update-expect: sweep obligations are armed only if they discharge at once
}

// fileBase turns an obligation name into a file name of bounded length.
func fileBase(name string) string {
	base := sanitize(name)
	if len(base) > 180 {
		h := fnv.New32a()
		h.Write([]byte(base))
		base = fmt.Sprintf("%s~%08x", base[:170], h.Sum32())
	}
	return base
}

func writeQuery(dir, name string, body string) string {
	fn := filepath.Join(dir, fileBase(name)+".smt2")
	_ = os.WriteFile(fn, []byte(body), 0o644)
	return fn
}

// solveAll decides every obligation. queries[i] is the SMT text without (get-model).
func solveAll(cfg solveCfg, items []*Verdict, texts []string) {
	var wg sync.WaitGroup
	sem := make(chan struct{}, cfg.parallel)
	for i := range items {
		wg.Add(1)
		go func(i int) {
			defer wg.Done()
			sem <- struct{}{}
			defer func() { <-sem }()
			v := items[i]
			v.File = writeQuery(cfg.workDir, v.Name, texts[i])
			v.Size = len(texts[i])
			if v.AltText != "" {
				a, _, el := runSolver("z3-new", v.File, cfg.quickT)
				if a == "unsat" {
					v.Answer, v.Solver, v.Secs, v.Status = "unsat", "z3-new", el, "discharged"
					v.Detail = "proved without quantified assumptions"
					return
				}
				v.Secs += el
				v.File = writeQuery(cfg.workDir, v.Name+".full", v.AltText)
				v.Size = len(v.AltText)
			}
			decide(cfg, v)
		}(i)
	}
	wg.Wait()
}

func decide(cfg solveCfg, v *Verdict) {
	expectSat := v.Oblig != nil && v.Oblig.ExpectSat
	record := func(ans, solver string, secs float64, text string) {
		v.Answer, v.Solver, v.Secs = ans, solver, v.Secs+secs
		if ans == "sat" {
			v.Model = text
		}
		if ans == "error" {
			v.Detail = firstLines(text, 5)
		}
	}
	if cfg.arming && strings.Contains(v.Name, "/sweep/") {
		a, t, el := runSolver("z3-new", v.File, cfg.quickT)
		record(a, "z3-new", el, t)
	} else {
		var a, t, sname string
		var el float64
		if expectSat {
			a, t, el = runSolver("z3-new", v.File, cfg.quickT)
			sname = "z3-new"
		} else {
			a, sname, t, el = raceSolvers([]string{"z3-new", "z3-new/noext", "cvc5"}, v.File, cfg.quickT)
		}
		record(a, sname, el, t)
		if a != "unsat" && a != "sat" && !expectSat {
			// race several configurations; any unsat is a proof
			stage2 := []string{"z3-new/p1", "z3-new/p2", "z3-new/p3", "z3-new/p4", "z3-new/noext2", "z3", "cvc5"}
			a2, s2, t2, el2 := raceSolvers(stage2, v.File, 10)
			if a2 == "unsat" || a2 == "sat" {
				record(a2, s2, el2, t2)
			} else if cfg.short[v.Name] || cfg.short[splitBase(v.Name)] {
				v.Secs += el2
			} else {
				v.Secs += el2
				stage3 := []string{"z3-new/p6", "z3-new/p7", "z3-new/p8", "z3-new/p9", "z3-new/p10", "z3-new/p11", "z3-new/p12", "z3-new/s1"}
				a3, s3, t3, el3 := raceSolvers(stage3, v.File, cfg.slowT)
				if a3 == "unsat" || a3 == "sat" {
					record(a3, s3, el3, t3)
				} else {
					v.Secs += el3
				}
			}
		}
	}
	if cfg.tier == "thorough" && !expectSat && v.Answer == "unsat" && !(cfg.arming && strings.Contains(v.Name, "/sweep/")) {
		// thorough tier: the portfolio's proof is cross-checked by the three solvers in their default configuration;
		// a disagreement (one of them finds a model) withdraws the proof
		type r struct {
			ans, solver, text string
			secs              float64
		}
		ch := make(chan r, 3)
		for _, sn := range []string{"z3-new", "z3", "cvc5"} {
			go func(sn string) {
				a, t, el := runSolver(sn, v.File, cfg.slowT)
				ch <- r{a, sn, t, el}
			}(sn)
		}
		var all []string
		for i := 0; i < 3; i++ {
			x := <-ch
			all = append(all, fmt.Sprintf("%s=%s(%.2fs)", x.solver, x.ans, x.secs))
			if x.ans == "sat" {
				record("sat", x.solver, x.secs, x.text)
			}
		}
		v.Detail = "proved by " + v.Solver + "; cross-check: " + strings.Join(all, " ")
	}
	if expectSat {
		if v.Answer == "unsat" {
			v.Status = "vacuous"
		} else {
			v.Status = "covered"
		}
		return
	}
	if v.Answer == "unsat" {
		v.Status = "discharged"
	} else {
		v.Status = "failed"
	}
}

func firstLines(s string, n int) string {
	ls := strings.Split(s, "\n")
	if len(ls) > n {
		ls = ls[:n]
	}
	return strings.Join(ls, "\n")
}

// getModel re-runs a sat query with (get-model).
func getModel(file string, secs int) string {
	data, err := os.ReadFile(file)
	if err != nil {
		return ""
	}
	mf := strings.TrimSuffix(file, ".smt2") + ".model.smt2"
	_ = os.WriteFile(mf, append(data, []byte("(get-model)\n")...), 0o644)
	_, text, _ := runSolver("z3-new", mf, secs)
	return text
}
