package main

// Engine: loading, contract tables, per-function verification.

import (
	"fmt"
	"go/ast"
	"go/token"
	"go/types"
	"os"
	"path/filepath"
	"sort"
	"strconv"
	"strings"

	"golang.org/x/tools/go/packages"
	"golang.org/x/tools/go/ssa"
	"golang.org/x/tools/go/ssa/ssautil"
)

const contractFile = "zz_verif_contracts.go"

type Engine struct {
	repo          string
	module        string
	fset          *token.FileSet
	pkgs          []*packages.Package
	prog          *ssa.Program
	ssaPkgs       map[string]*ssa.Package
	typesPkgs     map[string]*types.Package
	importNames   map[string]map[string]string // pkg path -> alias -> import path
	globalImports map[string]string
	contracts     map[string]*Contract
	specFuncs     map[string]*SpecFunc
	lemmas        []*Lemma
	axioms        []*Axiom
	pure          map[string]bool
	ignore        []string
	observers     []string // getters of environment objects: no effect, result arbitrary but made of existing objects
	strTab        map[string]int64
	strRev        map[int64]string
	typeIDs       map[string]int64
	inlineLimit   int
	inlineSmall   int
	specFiles     []*SpecFile
	funcsByKey    map[string]*ssa.Function
	wsets         map[*ssa.Function]*wset
	wsInProgress  map[*ssa.Function]bool
	wsVisited     map[*ssa.Function]bool
	wsChanged     bool
}

func (e *Engine) strLit(s string) *Term {
	if s == "" {
		return Int(0)
	}
	id, ok := e.strTab[s]
	if !ok {
		id = int64(len(e.strTab) + 1)
		e.strTab[s] = id
		e.strRev[id] = s
	}
	return Int(id)
}

func (e *Engine) strOf(id int64) (string, bool) {
	if id == 0 {
		return "", true
	}
	s, ok := e.strRev[id]
	return s, ok
}

func (e *Engine) typeID(t types.Type) int64 {
	k := types.TypeString(types.Unalias(t), nil)
	id, ok := e.typeIDs[k]
	if !ok {
		id = int64(len(e.typeIDs) + 1)
		e.typeIDs[k] = id
	}
	return id
}

func (e *Engine) isIgnored(key string) bool {
	for _, p := range e.ignore {
		if strings.HasSuffix(p, "*") {
			if strings.HasPrefix(key, p[:len(p)-1]) {
				return true
			}
		} else if key == p {
			return true
		}
	}
	return false
}

func (e *Engine) isObserverDecl(key string) bool {
	for _, p := range e.observers {
		if strings.HasSuffix(p, "*") {
			if strings.HasPrefix(key, p[:len(p)-1]) {
				return true
			}
		} else if key == p {
			return true
		}
	}
	return false
}

func (e *Engine) isPure(key string) bool {
	if e.pure[key] {
		return true
	}
	return false
}

func (e *Engine) findSpecFunc(pkgPath, name string) *SpecFunc {
	if sf, ok := e.specFuncs[pkgPath+"."+name]; ok {
		return sf
	}
	if sf, ok := e.specFuncs["."+name]; ok {
		return sf
	}
	return nil
}

// findContractDirs lists directories under repo containing contract files, with the property tags they carry.
func findContractFiles(repo string) ([]string, error) {
	var out []string
	err := filepath.Walk(repo, func(p string, info os.FileInfo, err error) error {
		if err != nil {
			return nil
		}
		if info.IsDir() {
			b := filepath.Base(p)
			if b == ".git" || b == "vendor" || b == "node_modules" || b == "docs" {
				return filepath.SkipDir
			}
			return nil
		}
		if filepath.Base(p) == contractFile {
			out = append(out, p)
		}
		return nil
	})
	sort.Strings(out)
	return out, err
}

func NewEngine(repo string) *Engine {
	return &Engine{repo: repo, ssaPkgs: map[string]*ssa.Package{}, typesPkgs: map[string]*types.Package{}, importNames: map[string]map[string]string{},
		globalImports: map[string]string{}, contracts: map[string]*Contract{}, specFuncs: map[string]*SpecFunc{}, pure: map[string]bool{},
		strTab: map[string]int64{}, strRev: map[int64]string{}, typeIDs: map[string]int64{}, inlineLimit: 400, inlineSmall: 80, funcsByKey: map[string]*ssa.Function{}}
}

// Load loads the given package patterns (relative to repo) with syntax and builds SSA.
func (e *Engine) Load(patterns []string) error {
	cfg := &packages.Config{Mode: packages.LoadSyntax | packages.NeedModule, Dir: e.repo, BuildFlags: []string{"-tags=verif"}, Env: os.Environ()}
	pkgs, err := packages.Load(cfg, patterns...)
	if err != nil {
		return err
	}
	var errs []string
	packages.Visit(pkgs, nil, func(p *packages.Package) {
		for _, er := range p.Errors {
			errs = append(errs, er.Error())
		}
	})
	if len(errs) > 0 {
		return fmt.Errorf("package errors:\n%s", strings.Join(errs, "\n"))
	}
	e.pkgs = pkgs
	if len(pkgs) > 0 {
		e.fset = pkgs[0].Fset
		if pkgs[0].Module != nil {
			e.module = pkgs[0].Module.Path
		}
	}
	prog, spkgs := ssautil.AllPackages(pkgs, ssa.NaiveForm|ssa.GlobalDebug|ssa.InstantiateGenerics)
	e.prog = prog
	for i, sp := range spkgs {
		if sp != nil {
			_ = i
		}
	}
	for _, p := range pkgs {
		sp := prog.Package(p.Types)
		if sp != nil {
			sp.Build()
			e.ssaPkgs[p.PkgPath] = sp
		}
		// import aliases
		m := map[string]string{}
		for _, f := range p.Syntax {
			for _, im := range f.Imports {
				path, _ := strconv.Unquote(im.Path.Value)
				name := ""
				if im.Name != nil {
					name = im.Name.Name
				} else if ip := p.Imports[path]; ip != nil {
					name = ip.Name
				} else {
					name = filepath.Base(path)
				}
				if name != "_" && name != "." {
					m[name] = path
					if _, ok := e.globalImports[name]; !ok {
						e.globalImports[name] = path
					}
				}
			}
		}
		e.importNames[p.PkgPath] = m
	}
	packages.Visit(pkgs, nil, func(p *packages.Package) {
		if p.Types != nil {
			e.typesPkgs[p.PkgPath] = p.Types
		}
	})
	// index functions
	var addFn func(fn *ssa.Function)
	addFn = func(fn *ssa.Function) {
		if fn == nil {
			return
		}
		k := funcKey(fn)
		if old, ok := e.funcsByKey[k]; ok && (old == fn || len(old.Blocks) >= len(fn.Blocks)) {
			return
		}
		e.funcsByKey[k] = fn
		for _, a := range fn.AnonFuncs {
			addFn(a)
		}
	}
	for fn := range ssautil.AllFunctions(prog) {
		addFn(fn)
	}
	// methods of unexported types are not reached by AllFunctions
	for _, sp := range e.ssaPkgs {
		for _, m := range sp.Members {
			switch x := m.(type) {
			case *ssa.Function:
				addFn(x)
			case *ssa.Type:
				nt, ok := x.Type().(*types.Named)
				if !ok || nt.TypeParams().Len() > 0 {
					continue
				}
				for _, t := range []types.Type{nt, types.NewPointer(nt)} {
					ms := prog.MethodSets.MethodSet(t)
					for i := 0; i < ms.Len(); i++ {
						addFn(prog.MethodValue(ms.At(i)))
					}
				}
			}
		}
	}
	_ = ast.Inspect
	return nil
}

// AddSpecFile registers the contents of a parsed spec file.
func (e *Engine) AddSpecFile(sf *SpecFile) error {
	e.specFiles = append(e.specFiles, sf)
	for a, p := range sf.Imports {
		if e.importNames[sf.PkgPath] == nil {
			e.importNames[sf.PkgPath] = map[string]string{}
		}
		e.importNames[sf.PkgPath][a] = p
		if _, ok := e.globalImports[a]; !ok {
			e.globalImports[a] = p
		}
	}
	for _, c := range sf.Contracts {
		c.FullKey = e.resolveKey(c.PkgPath, c.Key, c.Extern)
		if old, dup := e.contracts[c.FullKey]; dup {
			switch {
			case old.Extern && !c.Extern:
				// a verified contract in the repository replaces an assumed one
			case !old.Extern && c.Extern:
				continue
			default:
				return fmt.Errorf("%s: duplicate contract for %s (also at %s)", c.Where, c.FullKey, old.Where)
			}
		}
		e.contracts[c.FullKey] = c
	}
	for _, s := range sf.SpecFuncs {
		if old := e.specFuncs[s.PkgPath+"."+s.Name]; old != nil && old != s {
			return fmt.Errorf("%s: spec func %s is defined twice in package %s", sf.Path, s.Name, s.PkgPath)
		}
		e.specFuncs[s.PkgPath+"."+s.Name] = s
		if sf.PkgPath == "" || strings.HasPrefix(s.Name, "g_") {
			e.specFuncs["."+s.Name] = s
		}
	}
	for _, n := range sf.Opaque {
		if f := e.specFuncs[sf.PkgPath+"."+n]; f != nil {
			f.Opaque = true
		} else {
			return fmt.Errorf("%s: opaque: unknown spec func %s", sf.Path, n)
		}
	}
	e.lemmas = append(e.lemmas, sf.Lemmas...)
	e.axioms = append(e.axioms, sf.Axioms...)
	for _, p := range sf.Pure {
		e.pure[e.resolveKey(sf.PkgPath, p, sf.PkgPath == "")] = true
	}
	for _, p := range sf.Ignore {
		if strings.HasPrefix(p, "pkg ") {
			path := strings.TrimSpace(p[4:])
			e.ignore = append(e.ignore, path+".*", "("+path+".*", "(*"+path+".*")
			continue
		}
		e.ignore = append(e.ignore, e.resolveKey(sf.PkgPath, p, true))
	}
	for _, p := range sf.Observer {
		e.observers = append(e.observers, e.resolveKey(sf.PkgPath, p, true))
	}
	return nil
}

// resolveKey expands a short function key written inside a package's contract file.
func (e *Engine) resolveKey(pkgPath, key string, full bool) string {
	key = strings.TrimSpace(key)
	if full || pkgPath == "" {
		return key
	}
	if strings.HasPrefix(key, "(") {
		// (*T).M or (T).M
		cl := strings.Index(key, ")")
		inner := key[1:cl]
		star := ""
		if strings.HasPrefix(inner, "*") {
			star = "*"
			inner = inner[1:]
		}
		if strings.Contains(inner, ".") {
			return key
		}
		return "(" + star + pkgPath + "." + inner + ")" + key[cl+1:]
	}
	if strings.Contains(key, "/") || strings.Contains(strings.SplitN(key, "$", 2)[0], ".") {
		return key
	}
	return pkgPath + "." + key
}

// ---- verification of one function ----

type FuncResult struct {
	Key       string
	Contract  *Contract
	Obligs    []*Oblig
	Exec      *Exec
	Err       error
	NInstr    int
}

func (e *Engine) VerifyFunc(c *Contract) (res *FuncResult) {
	res = &FuncResult{Key: c.FullKey, Contract: c}
	fn := e.funcsByKey[c.FullKey]
	if fn == nil || len(fn.Blocks) == 0 {
		res.Err = fmt.Errorf("function %s not found or has no body", c.FullKey)
		return
	}
	for _, b := range fn.Blocks {
		res.NInstr += len(b.Instrs)
	}
	ex := &Exec{eng: e, top: fn, con: c, heapSrt: map[string]Sort{}, notes: map[string]bool{}, callOrd: map[string]int{}, ordinal: map[string]int{}, checked: map[string]bool{}}
	res.Exec = ex
	if v, ok := c.Opts["nopanic"]; ok {
		if v == "true" || v == "all" {
			v = "nil idx mapnil assert"
		}
		for _, k := range strings.Fields(v) {
			ex.checked[k] = true
		}
	}
	if c.Opts["arith"] == "checked" {
		ex.arith = true
	}
	if c.Opts["arith"] == "ranged" {
		ex.ranged = true
	}
	if c.Opts["arith"] == "mulchecked" {
		ex.arithMul = true // only products get overflow obligations (exact integer arithmetic must not use a wrapping *)
	}
	ex.callCells = map[string]*Cell{}
	ex.resCells = map[string]*Cell{}
	scanned := map[*SpecFunc]bool{}
	var scan func(e *SExpr)
	scan = func(e *SExpr) {
		if e == nil {
			return
		}
		if e.Op == "call" && e.Args[0].Op == "id" && e.Args[0].Name == "lastresult" && len(e.Args) >= 2 && e.Args[1].Op == "str" {
			if ex.resCells[e.Args[1].Name] == nil {
				ex.resCells[e.Args[1].Name] = ex.newCell("$res_"+e.Args[1].Name, nil, 0)
			}
		}
		if e.Op == "call" && e.Args[0].Op == "id" && e.Args[0].Name == "calls" && len(e.Args) == 2 && e.Args[1].Op == "str" {
			if ex.callCells[e.Args[1].Name] == nil {
				ex.callCells[e.Args[1].Name] = ex.newCell("$calls_"+e.Args[1].Name, types.Typ[types.Int], 0)
			}
		}
		if e.Op == "call" && len(e.Args) > 0 && e.Args[0].Op == "id" {
			// ghost counters used inside spec function macros are registered too
			if sf := ex.eng.findSpecFunc(c.PkgPath, e.Args[0].Name); sf != nil && sf.Body != nil && !scanned[sf] {
				scanned[sf] = true
				scan(sf.Body)
			}
		}
		for _, a := range e.Args {
			scan(a)
		}
	}
	for _, cl := range c.Requires {
		scan(cl.E)
	}
	for _, cl := range c.Ensures {
		scan(cl.E)
	}
	for _, cls := range c.LoopInv {
		for _, cl := range cls {
			scan(cl.E)
		}
	}
	for _, ca := range c.Asserts {
		scan(ca.Clause.E)
	}
	defer func() {
		if r := recover(); r != nil {
			switch x := r.(type) {
			case Unsupported:
				res.Err = fmt.Errorf("out of subset: %s (at %s)", x.msg, ex.posString(token.NoPos))
			case specErr:
				res.Err = fmt.Errorf("contract error: %s", x.msg)
			default:
				panic(r)
			}
		}
	}()
	st := &State{cells: map[*Cell]Val{}, heap: map[string]*Term{}, guard: True}
	st.wm = newWMs()
	ex.wm0 = st.wm.clone()
	ex.entry = st
	// parameters
	var args []Val
	for _, p := range fn.Params {
		v := FreshVal("p_"+p.Name(), p.Type())
		ex.typeFacts(st, v)
		args = append(args, v)
	}
	var free []Val
	for _, fv := range fn.FreeVars {
		v := FreshVal("fv_"+fv.Name(), fv.Type())
		ex.typeFacts(st, v)
		free = append(free, v)
	}
	for _, cc := range ex.callCells {
		st.cells[cc] = Val{T: cc.T, L: []*Term{Int(0)}}
	}
	entry := st.clone()
	ex.entry = entry
	env0 := ex.newEnv(c.PkgPath, entry)
	for i, p := range fn.Params {
		env0.vars[p.Name()] = args[i]
	}
	for i, fv := range fn.FreeVars {
		// captured variables are pointers to the variable: expose the pointee by name
		env0.vars["$fv_"+fv.Name()] = free[i]
	}
	if fn.Signature.Recv() != nil && len(args) > 0 {
		env0.vars["recv"] = args[0]
	}
	ex.bindLets(env0, c)
	for _, ln := range c.UseLemmas {
		var lm *Lemma
		for _, l := range e.lemmas {
			if l.Name == ln && (l.PkgPath == c.PkgPath || l.PkgPath == "") {
				lm = l
			}
		}
		if lm == nil {
			res.Err = fmt.Errorf("contract error: %s: use lemma %s: no such lemma", c.Where, ln)
			return
		}
		lenv := ex.newEnv(lm.PkgPath, st)
		ex.assumeRaw(ex.evalSpec(lenv, lm.E).S())
		ex.note("lemma", ln)
	}
	// axioms of the function's package and of the library are assumed (and listed as assumptions)
	for _, ax := range e.axioms {
		if ax.PkgPath == c.PkgPath || ax.PkgPath == "" {
			aenv := ex.newEnv(ax.PkgPath, st)
			if ax.PkgPath == "" {
				aenv = ex.newEnv(c.PkgPath, st)
			}
			ex.assumeRaw(ex.evalSpec(aenv, ax.E).S())
			ex.note("axiom", ax.Name)
		}
	}
	for _, rq := range c.Requires {
		ex.assume(st, ex.evalBool(env0, rq))
	}
	// heaps touched by requires exist in the entry state; share them with the running state
	for n, t := range entry.heap {
		if _, ok := st.heap[n]; !ok {
			st.heap[n] = t
		}
	}
	// cover: the precondition is satisfiable
	cov := ex.oblige(st, "cover", "cover/requires", False, fn.Pos())
	cov.ExpectSat = true

	// run
	run := st
	fr0params := map[string]Val{}
	for i, p := range fn.Params {
		fr0params[p.Name()] = args[i]
	}
	var vals []Val
	var out *State
	func() {
		// install env0 for loop clauses via a hook on the frame: execFunc creates the frame, so pass through a field
		ex.pendingEnv0 = env0
		vals, out, _ = ex.execFunc(fn, args, free, run, 0, c)
	}()
	if out == nil {
		// no normal return
		res.Obligs = ex.obligs
		return
	}
	// reachability of the normal exit
	rc := ex.oblige(out, "cover", "cover/return", False, fn.Pos())
	rc.ExpectSat = true
	// postconditions
	envP := ex.newEnv(c.PkgPath, out)
	for k, v := range env0.vars {
		envP.vars[k] = v
	}
	envP.old = env0
	envP.wmPre = entry.wm
	rt := resultType(fn.Signature)
	envP.setResults(rt, tupleVal(rt, vals...))
	envP.nameResults(fn.Signature)
	if len(vals) == 1 {
		r := envP.vars["result"]
		r.Loc = vals[0].Loc
		envP.vars["result"] = r
	}
	ex.bindLets(envP, c)
	for i, en := range c.Ensures {
		g := ex.evalBool(envP, en)
		o := ex.oblige(out, "ensures", fmt.Sprintf("ensures#%s", clauseName(en, i)), g, fn.Pos())
		o.Props = en.Props
	}
	// frame
	if c.HasMod {
		ex.frameObligations(env0, entry, out, c)
	}
	res.Obligs = ex.obligs
	return
}

// frameObligations: every heap changed by the body is covered by the modifies clause.
func (ex *Exec) frameObligations(env0 *SpecEnv, entry, out *State, c *Contract) {
	allowed := map[string][]*Term{} // nil slice entry with whole=true
	allowedEl := map[string][][2]*Term{}
	whole := map[string]bool{}
	for _, m := range c.Modifies {
		for _, hr := range ex.designatorHeaps(env0, m) {
			switch {
			case hr.idx == nil:
				whole[hr.name] = true
			case hr.sub != nil:
				allowedEl[hr.name] = append(allowedEl[hr.name], [2]*Term{hr.idx, hr.sub})
			default:
				allowed[hr.name] = append(allowed[hr.name], hr.idx)
			}
		}
	}
	// heaps forgotten by summarised / unknown callees but never touched directly must be materialised too
	sawAll := false
	var walk func(hv *hvNode, seen map[*hvNode]bool)
	walk = func(hv *hvNode, seen map[*hvNode]bool) {
		for hv != nil && !seen[hv] {
			seen[hv] = true
			if hv.all {
				sawAll = true
			}
			for n := range hv.set {
				if _, ok := out.heap[n]; !ok {
					if srt, ok := heapSortReg[n]; ok {
						ex.heapGet(out, n, srt)
					}
				}
			}
			for _, e := range hv.merge {
				walk(e.hv, seen)
			}
			hv = hv.prev
		}
	}
	walk(out.hv, map[*hvNode]bool{})
	if sawAll {
		ex.oblige(out, "frame", "frame/unmodelled-call", False, ex.top.Pos())
	}
	names := make([]string, 0, len(out.heap))
	for n := range out.heap {
		names = append(names, n)
	}
	sort.Strings(names)
	for _, n := range names {
		fin := out.heap[n]
		srt := ex.heapSrt[n]
		ini := Sym(n+"@0", srt)
		if fin == ini || whole[n] {
			continue
		}
		o := Fresh("o", SInt)
		conds := []*Term{Ge(o, Int(1))}
		if owner := heapOwnerKey[n]; owner != "" {
			conds = append(conds, Le(o, ex.wmGet(entry.wm, owner)))
		}
		for _, ix := range allowed[n] {
			conds = append(conds, Ne(o, ix))
		}
		goal := Implies(And(conds...), Eq(Select(fin, o), Select(ini, o)))
		if els := allowedEl[n]; len(els) > 0 {
			// single elements of backing arrays are allowed: compare position by position
			_, es := srt.splitArr()
			if es.IsArray() {
				ks, _ := es.splitArr()
				k := Fresh("k", ks)
				for _, e := range els {
					conds = append(conds, Not(And(Eq(o, e[0]), Eq(k, e[1]))))
				}
				goal = Implies(And(conds...), Eq(Select(Select(fin, o), k), Select(Select(ini, o), k)))
			}
		}
		ob := ex.oblige(out, "frame", "frame/"+n, goal, ex.top.Pos())
		_ = ob
	}
}
