package main

// Syntactic write-set inference: which heap families may a function (transitively) write?
// Used for calls to repository functions that have no contract and are too large to inline:
// instead of forgetting the whole heap, only the inferred families are forgotten.

import (
	"go/types"
	"strings"

	"golang.org/x/tools/go/ssa"
)

type wset struct {
	top   bool
	why   string
	heaps map[string]bool
}

func (w *wset) add(o *wset) bool {
	changed := false
	if o.top && !w.top {
		w.top = true
		w.why = o.why
		changed = true
	}
	for h := range o.heaps {
		if !w.heaps[h] {
			w.heaps[h] = true
			changed = true
		}
	}
	return changed
}

func (e *Engine) writeSet(fn *ssa.Function) *wset {
	if e.wsets == nil {
		e.wsets = map[*ssa.Function]*wset{}
	}
	if w, ok := e.wsets[fn]; ok {
		return w
	}
	// iterate to a fixpoint over the call graph reachable from fn
	e.wsInProgress = map[*ssa.Function]bool{}
	for iter := 0; iter < 6; iter++ {
		e.wsChanged = false
		e.wsVisited = map[*ssa.Function]bool{}
		e.wsCompute(fn)
		if !e.wsChanged {
			break
		}
	}
	return e.wsets[fn]
}

func (e *Engine) wsCompute(fn *ssa.Function) *wset {
	w := e.wsets[fn]
	if w == nil {
		w = &wset{heaps: map[string]bool{}}
		e.wsets[fn] = w
		e.wsChanged = true
	}
	if e.wsVisited[fn] {
		return w
	}
	e.wsVisited[fn] = true
	if len(fn.Blocks) == 0 {
		if !w.top {
			w.top = true
			w.why = "no body: " + fn.String()
			e.wsChanged = true
		}
		return w
	}
	addHeap := func(h string) {
		if !w.heaps[h] {
			w.heaps[h] = true
			e.wsChanged = true
		}
	}
	setTop := func(why string) {
		if !w.top {
			w.top = true
			w.why = why
			e.wsChanged = true
		}
	}
	addLeaves := func(t types.Type, prefix string, elem bool) {
		lo, hi := 0, len(Layout(t))
		if prefix != "" {
			lo, hi = subRange(t, prefix)
		}
		for _, l := range Layout(t)[lo:hi] {
			if elem {
				addHeap(elemHeapName(t, l.Path))
			} else {
				addHeap(fieldHeapName(t, l.Path))
			}
		}
	}
	addMap := func(t types.Type) {
		if _, ok := types.Unalias(t).Underlying().(*types.Map); !ok {
			return
		}
		for _, n := range mapOf(t).names() {
			addHeap(n)
		}
	}
	// storeTarget resolves the heap families a store through addr may touch.
	var storeTarget func(addr ssa.Value, prefix string)
	storeTarget = func(addr ssa.Value, prefix string) {
		switch a := addr.(type) {
		case *ssa.FieldAddr:
			st := types.Unalias(derefType(a.X.Type())).Underlying().(*types.Struct)
			storeTarget(a.X, "."+st.Field(a.Field).Name()+prefix)
		case *ssa.IndexAddr:
			switch u := types.Unalias(a.X.Type()).Underlying().(type) {
			case *types.Slice:
				addLeaves(u.Elem(), prefix, true)
			case *types.Pointer:
				if at, ok := types.Unalias(u.Elem()).Underlying().(*types.Array); ok {
					addLeaves(at.Elem(), prefix, true)
				}
			}
		case *ssa.Alloc:
			if a.Heap {
				et := derefType(a.Type())
				if _, isArr := types.Unalias(et).Underlying().(*types.Array); isArr {
					at := types.Unalias(et).Underlying().(*types.Array)
					addLeaves(at.Elem(), "", true)
				} else if isStructLike(et) {
					addLeaves(et, prefix, false)
				}
			}
		case *ssa.Global:
			et := derefType(a.Type())
			name := "G_" + sanitize(a.Pkg.Pkg.Path()+"."+a.Name())
			g := globalObj{name: name, T: et}
			lo, hi := 0, len(Layout(et))
			if prefix != "" {
				lo, hi = subRange(et, prefix)
			}
			for _, l := range Layout(et)[lo:hi] {
				addHeap("H_" + g.name + "_" + sanitize(l.Path))
			}
		default:
			// pointer value of unknown origin: by type
			if et := derefType(addr.Type()); et != nil {
				if _, isArr := types.Unalias(et).Underlying().(*types.Array); isArr {
					at := types.Unalias(et).Underlying().(*types.Array)
					addLeaves(at.Elem(), "", true)
				} else {
					addLeaves(et, prefix, false)
				}
			}
		}
	}
	handleCall := func(cc *ssa.CallCommon) {
		if b, ok := cc.Value.(*ssa.Builtin); ok {
			switch b.Name() {
			case "append", "copy":
				if sl, ok := types.Unalias(cc.Args[0].Type()).Underlying().(*types.Slice); ok {
					addLeaves(sl.Elem(), "", true)
				}
			case "delete", "clear":
				addMap(cc.Args[0].Type())
			}
			return
		}
		if cc.IsInvoke() {
			key := "(" + types.TypeString(types.Unalias(cc.Value.Type()), nil) + ")." + cc.Method.Name()
			if e.isIgnored(key) || e.isPure(key) || e.isObserverDecl(key) || key == "(error).Error" {
				return
			}
			if c := e.contracts[key]; c != nil && c.HasMod && len(c.Modifies) == 0 {
				return
			}
			setTop("interface call " + key)
			return
		}
		callee := cc.StaticCallee()
		if callee == nil {
			// closure value created locally?
			if mc, ok := cc.Value.(*ssa.MakeClosure); ok {
				callee = mc.Fn.(*ssa.Function)
			} else if inner, ok := cc.Value.(*ssa.Call); ok && inner.Common().StaticCallee() != nil && len(inner.Common().StaticCallee().Blocks) > 0 {
				// calling the function value returned by a static callee: one of its closures (already part of its write set)
				cw := e.wsCompute(inner.Common().StaticCallee())
				if w.add(cw) {
					e.wsChanged = true
				}
				return
			} else {
				if u, ok := cc.Value.(*ssa.UnOp); ok {
					if g, ok := u.X.(*ssa.Global); ok && g.Pkg != nil && g.Pkg.Pkg != nil {
						key := g.Pkg.Pkg.Path() + "." + g.Name()
						if e.isIgnored(key) || e.isPure(key) {
							return
						}
						if c := e.contracts[key]; c != nil && c.HasMod && len(c.Modifies) == 0 {
							return
						}
					}
				}
				setTop("dynamic call in " + fn.String())
				return
			}
		}
		key := funcKey(callee)
		switch {
		case e.theoryWrites(key, cc, addHeap, addMap):
			return
		case e.isIgnored(key) || e.isPure(key) || e.isObserverDecl(key):
			return
		}
		if c := e.contracts[key]; c != nil && c.HasMod && len(c.Modifies) == 0 {
			// `modifies nothing` (assumed for externs, checked for repository functions under contract)
			return
		}
		if c := e.contracts[key]; c != nil && c.Extern {
			setTop("extern contract with effects: " + key)
			return
		}
		if len(callee.Blocks) == 0 {
			setTop("no body: " + key)
			return
		}
		cw := e.wsCompute(callee)
		if w.add(cw) {
			e.wsChanged = true
		}
	}
	for _, b := range fn.Blocks {
		for _, ins := range b.Instrs {
			switch x := ins.(type) {
			case *ssa.Store:
				storeTarget(x.Addr, "")
			case *ssa.MapUpdate:
				addMap(x.Map.Type())
			case *ssa.MakeMap:
				addMap(x.Type())
			case *ssa.MakeSlice:
				if sl, ok := types.Unalias(x.Type()).Underlying().(*types.Slice); ok {
					addLeaves(sl.Elem(), "", true)
				}
			case *ssa.Call:
				handleCall(x.Common())
			case *ssa.Defer:
				handleCall(x.Common())
			case *ssa.Go:
				setTop("go statement")
			case *ssa.Send, *ssa.Select:
				setTop("channel operation")
			}
		}
	}
	for _, a := range fn.AnonFuncs {
		// closures created here may run as part of this function (defer, immediate call, callbacks)
		cw := e.wsCompute(a)
		if w.add(cw) {
			e.wsChanged = true
		}
	}
	return w
}

// theoryWrites accounts for the heap effects of functions handled by the built-in theory.
func (e *Engine) theoryWrites(key string, cc *ssa.CallCommon, addHeap func(string), addMap func(types.Type)) bool {
	q := func() {
		for _, a := range cc.Args {
			if et := derefType(a.Type()); et != nil && isQuantity(et) {
				addHeap(fieldHeapName(et, ""))
			}
		}
	}
	switch {
	case strings.HasPrefix(key, "(*"+pResource+"Quantity).") || strings.HasPrefix(key, "("+pResource+"Quantity)."):
		q()
		return true
	case strings.HasPrefix(key, pResource):
		// NewQuantity etc. allocate a Quantity box
		if rt := resultType(cc.Signature()); derefType(rt) != nil && isQuantity(derefType(rt)) {
			addHeap(fieldHeapName(derefType(rt), ""))
		}
		return true
	case strings.HasPrefix(key, "(k8s.io/api/core/v1.ResourceList).") || strings.HasPrefix(key, "(*k8s.io/api/core/v1.ResourceList)."):
		rt := resultType(cc.Signature())
		if derefType(rt) != nil && isQuantity(derefType(rt)) {
			addHeap(fieldHeapName(derefType(rt), ""))
		}
		addMap(rt)
		return true
	case strings.HasPrefix(key, "math.") || strings.HasPrefix(key, "math/bits."):
		return true
	case strings.HasPrefix(key, "("+pSets) || strings.HasPrefix(key, pSets):
		if len(cc.Args) > 0 {
			addMap(cc.Args[0].Type())
		}
		addMap(resultType(cc.Signature()))
		return true
	case strings.HasPrefix(key, "(time.Time).") || strings.HasPrefix(key, "(*time.Time).") || strings.HasPrefix(key, "time.") || strings.HasPrefix(key, "(time.Duration).") ||
		strings.Contains(key, "k8s.io/apimachinery/pkg/apis/meta/v1.Time).") || strings.HasPrefix(key, "k8s.io/apimachinery/pkg/apis/meta/v1.Now") || strings.HasPrefix(key, "k8s.io/apimachinery/pkg/apis/meta/v1.NewTime"):
		return true
	case key == "fmt.Sprintf" || key == "fmt.Sprint" || key == "fmt.Sprintln" || key == "fmt.Errorf" || key == "errors.New" || key == "k8s.io/apimachinery/pkg/util/errors.NewAggregate" || key == "(error).Error":
		return true
	case strings.HasPrefix(key, "k8s.io/utils/ptr.") || strings.HasPrefix(key, "k8s.io/utils/pointer."):
		rt := resultType(cc.Signature())
		if et := derefType(rt); et != nil {
			for _, l := range Layout(et) {
				addHeap(fieldHeapName(et, l.Path))
			}
		}
		return true
	case key == "strconv.Itoa" || key == "strconv.Atoi":
		return true
	case key == "sort.Slice" || key == "sort.SliceStable" || key == "sort.Sort" || key == "sort.Stable":
		// the sorted slice is wrapped in an interface: be conservative by element type when visible
		if len(cc.Args) > 0 {
			if mi, ok := cc.Args[0].(*ssa.MakeInterface); ok {
				if sl, ok := types.Unalias(mi.X.Type()).Underlying().(*types.Slice); ok {
					for _, l := range Layout(sl.Elem()) {
						addHeap(elemHeapName(sl.Elem(), l.Path))
					}
					return true
				}
			}
		}
		return false
	}
	return false
}
