package main

// Hash-consed SMT terms, a small simplifier and a DAG printer.

import (
	"fmt"
	"math/big"
	"sort"
	"strings"
)

type Sort string

const (
	SInt  Sort = "Int"
	SBool Sort = "Bool"
	SReal Sort = "Real"
)

func ArrSort(k, v Sort) Sort { return Sort("(Array " + string(k) + " " + string(v) + ")") }

func (s Sort) IsArray() bool { return strings.HasPrefix(string(s), "(Array ") }

// splitArr returns index and element sorts of an array sort.
func (s Sort) splitArr() (Sort, Sort) {
	str := string(s)
	str = str[len("(Array ") : len(str)-1]
	depth := 0
	for i := 0; i < len(str); i++ {
		switch str[i] {
		case '(':
			depth++
		case ')':
			depth--
		case ' ':
			if depth == 0 {
				return Sort(str[:i]), Sort(str[i+1:])
			}
		}
	}
	panic("bad array sort " + string(s))
}

type Term struct {
	id    int
	op    string // "const" (symbol), "int", "real", "true", "false", "bound", or SMT operator / function name
	name  string // symbol / literal text / bound var name
	args  []*Term
	sort  Sort
	bound bool    // contains a bound variable
	bvars []*Term // for forall/exists: bound variable terms
	pats  [][]*Term
}

func (t *Term) Sort() Sort { return t.sort }

type TermStore struct {
	tab   map[string]*Term
	next  int
	decls map[string]string // symbol -> declaration text
	axioms map[string]string // function symbol -> axiom text, emitted when the symbol occurs
	order []string
	fresh int
}

var TS = &TermStore{tab: map[string]*Term{}, decls: map[string]string{}, axioms: map[string]string{}}

func (ts *TermStore) mk(op, name string, sort Sort, args ...*Term) *Term {
	var sb strings.Builder
	sb.WriteString(op)
	sb.WriteByte('|')
	sb.WriteString(name)
	sb.WriteByte('|')
	sb.WriteString(string(sort))
	for _, a := range args {
		fmt.Fprintf(&sb, "|%d", a.id)
	}
	k := sb.String()
	if t, ok := ts.tab[k]; ok {
		return t
	}
	ts.next++
	t := &Term{id: ts.next, op: op, name: name, args: args, sort: sort}
	if op == "bound" {
		t.bound = true
	}
	for _, a := range args {
		if a.bound {
			t.bound = true
		}
	}
	ts.tab[k] = t
	return t
}

// ---- constructors ----

func Sym(name string, sort Sort) *Term {
	if _, ok := TS.decls[name]; !ok {
		TS.decls[name] = fmt.Sprintf("(declare-fun %s () %s)", name, sort)
		TS.order = append(TS.order, name)
	}
	return TS.mk("const", name, sort)
}

func Fresh(prefix string, sort Sort) *Term {
	TS.fresh++
	return Sym(fmt.Sprintf("%s!%d", sanitize(prefix), TS.fresh), sort)
}

func sanitize(s string) string {
	var sb strings.Builder
	for _, r := range s {
		if r >= 'a' && r <= 'z' || r >= 'A' && r <= 'Z' || r >= '0' && r <= '9' || r == '_' || r == '.' || r == '$' {
			sb.WriteRune(r)
		} else {
			sb.WriteByte('_')
		}
	}
	return sb.String()
}

// DeclFun declares an uninterpreted function and returns its name.
func DeclFun(name string, args []Sort, ret Sort) string {
	name = sanitize(name)
	if _, ok := TS.decls[name]; !ok {
		as := make([]string, len(args))
		for i, a := range args {
			as[i] = string(a)
		}
		TS.decls[name] = fmt.Sprintf("(declare-fun %s (%s) %s)", name, strings.Join(as, " "), ret)
		TS.order = append(TS.order, name)
	}
	return name
}

func App(fn string, ret Sort, args ...*Term) *Term {
	if len(args) == 0 {
		return Sym(fn, ret)
	}
	return TS.mk(fn, "", ret, args...)
}

// UF declares (if needed) and applies an uninterpreted function.
func UF(name string, ret Sort, args ...*Term) *Term {
	ss := make([]Sort, len(args))
	for i, a := range args {
		ss[i] = a.sort
	}
	n := DeclFun(name, ss, ret)
	if len(args) == 0 {
		return Sym(n, ret)
	}
	return TS.mk(n, "", ret, args...)
}

func Bound(name string, sort Sort) *Term { return TS.mk("bound", name, sort) }

var (
	True  = TS.mk("true", "", SBool)
	False = TS.mk("false", "", SBool)
)

func Bool(b bool) *Term {
	if b {
		return True
	}
	return False
}

func IntBig(v *big.Int) *Term { return TS.mk("int", v.String(), SInt) }
func Int(v int64) *Term      { return TS.mk("int", fmt.Sprint(v), SInt) }

func RealRat(r *big.Rat) *Term { return TS.mk("real", r.String(), SReal) }
func RealInt(v int64) *Term    { return RealRat(new(big.Rat).SetInt64(v)) }

func (t *Term) IsIntLit() bool { return t.op == "int" }
func (t *Term) IntVal() *big.Int {
	v, _ := new(big.Int).SetString(t.name, 10)
	return v
}
func (t *Term) IsRealLit() bool { return t.op == "real" }
func (t *Term) RatVal() *big.Rat {
	v, _ := new(big.Rat).SetString(t.name)
	return v
}

func Not(a *Term) *Term {
	switch {
	case a == True:
		return False
	case a == False:
		return True
	case a.op == "not":
		return a.args[0]
	}
	return TS.mk("not", "", SBool, a)
}

func And(as ...*Term) *Term {
	var out []*Term
	seen := map[int]bool{}
	for _, a := range as {
		if a == nil || a == True {
			continue
		}
		if a == False {
			return False
		}
		if a.op == "and" {
			for _, b := range a.args {
				if !seen[b.id] {
					seen[b.id] = true
					out = append(out, b)
				}
			}
			continue
		}
		if !seen[a.id] {
			seen[a.id] = true
			out = append(out, a)
		}
	}
	for _, a := range out {
		if a.op == "not" && seen[a.args[0].id] {
			return False
		}
	}
	switch len(out) {
	case 0:
		return True
	case 1:
		return out[0]
	}
	return TS.mk("and", "", SBool, out...)
}

func Or(as ...*Term) *Term {
	var out []*Term
	seen := map[int]bool{}
	for _, a := range as {
		if a == nil || a == False {
			continue
		}
		if a == True {
			return True
		}
		if a.op == "or" {
			for _, b := range a.args {
				if !seen[b.id] {
					seen[b.id] = true
					out = append(out, b)
				}
			}
			continue
		}
		if !seen[a.id] {
			seen[a.id] = true
			out = append(out, a)
		}
	}
	for _, a := range out {
		if a.op == "not" && seen[a.args[0].id] {
			return True
		}
	}
	switch len(out) {
	case 0:
		return False
	case 1:
		return out[0]
	}
	return TS.mk("or", "", SBool, out...)
}

func Implies(a, b *Term) *Term {
	if a == True {
		return b
	}
	if a == False || b == True {
		return True
	}
	if b == False {
		return Not(a)
	}
	return TS.mk("=>", "", SBool, a, b)
}

func Iff(a, b *Term) *Term { return Eq(a, b) }

func Ite(c, a, b *Term) *Term {
	if c == True {
		return a
	}
	if c == False {
		return b
	}
	if a == b {
		return a
	}
	if a.sort != b.sort {
		a, b = unifyNum(a, b)
	}
	if a.sort == SBool {
		if a == True && b == False {
			return c
		}
		if a == False && b == True {
			return Not(c)
		}
		if a == True {
			return Or(c, b)
		}
		if b == False {
			return And(c, a)
		}
		if a == False {
			return And(Not(c), b)
		}
		if b == True {
			return Or(Not(c), a)
		}
	}
	return TS.mk("ite", "", a.sort, c, a, b)
}

func unifyNum(a, b *Term) (*Term, *Term) {
	if a.sort == SInt && b.sort == SReal {
		return ToReal(a), b
	}
	if a.sort == SReal && b.sort == SInt {
		return a, ToReal(b)
	}
	if a.sort != b.sort {
		panic(fmt.Sprintf("sort mismatch: %s : %s vs %s : %s", Show(a), a.sort, Show(b), b.sort))
	}
	return a, b
}

func Eq(a, b *Term) *Term {
	a, b = unifyNum(a, b)
	if a == b {
		return True
	}
	if a.op == "int" && b.op == "int" {
		return Bool(a.IntVal().Cmp(b.IntVal()) == 0)
	}
	if a.op == "real" && b.op == "real" {
		return Bool(a.RatVal().Cmp(b.RatVal()) == 0)
	}
	if a.sort == SBool {
		if a == True {
			return b
		}
		if b == True {
			return a
		}
		if a == False {
			return Not(b)
		}
		if b == False {
			return Not(a)
		}
	}
	if a.id > b.id {
		a, b = b, a
	}
	return TS.mk("=", "", SBool, a, b)
}

func Ne(a, b *Term) *Term { return Not(Eq(a, b)) }

func cmpLit(a, b *Term) (int, bool) {
	if a.op == "int" && b.op == "int" {
		return a.IntVal().Cmp(b.IntVal()), true
	}
	if a.op == "real" && b.op == "real" {
		return a.RatVal().Cmp(b.RatVal()), true
	}
	return 0, false
}

func Le(a, b *Term) *Term {
	a, b = unifyNum(a, b)
	if c, ok := cmpLit(a, b); ok {
		return Bool(c <= 0)
	}
	if a == b {
		return True
	}
	return TS.mk("<=", "", SBool, a, b)
}
func Lt(a, b *Term) *Term {
	a, b = unifyNum(a, b)
	if c, ok := cmpLit(a, b); ok {
		return Bool(c < 0)
	}
	if a == b {
		return False
	}
	return TS.mk("<", "", SBool, a, b)
}
func Ge(a, b *Term) *Term { return Le(b, a) }
func Gt(a, b *Term) *Term { return Lt(b, a) }

func ToReal(a *Term) *Term {
	if a.sort == SReal {
		return a
	}
	if a.op == "int" {
		return RealRat(new(big.Rat).SetInt(a.IntVal()))
	}
	return TS.mk("to_real", "", SReal, a)
}

// Floor: Real -> Int
func Floor(a *Term) *Term {
	if a.sort == SInt {
		return a
	}
	if a.op == "to_real" {
		return a.args[0]
	}
	if a.op == "real" {
		r := a.RatVal()
		q := new(big.Int)
		m := new(big.Int)
		q.DivMod(r.Num(), r.Denom(), m) // Euclidean: floor for positive denom
		return IntBig(q)
	}
	return TS.mk("to_int", "", SInt, a)
}

func Ceil(a *Term) *Term {
	if a.sort == SInt {
		return a
	}
	return Neg(Floor(Neg(a)))
}

// Trunc: Real -> Int, toward zero (Go's int64(f)).
func Trunc(a *Term) *Term {
	if a.sort == SInt {
		return a
	}
	if a.op == "to_real" {
		return a.args[0]
	}
	return Ite(Ge(a, RealInt(0)), Floor(a), Neg(Floor(Neg(a))))
}

func zeroOf(s Sort) *Term {
	if s == SReal {
		return RealInt(0)
	}
	return Int(0)
}

func Neg(a *Term) *Term {
	if a.op == "int" {
		return IntBig(new(big.Int).Neg(a.IntVal()))
	}
	if a.op == "real" {
		return RealRat(new(big.Rat).Neg(a.RatVal()))
	}
	if a.op == "-" && len(a.args) == 1 {
		return a.args[0]
	}
	return TS.mk("-", "", a.sort, a)
}

func Add(a, b *Term) *Term {
	a, b = unifyNum(a, b)
	if a.op == "int" && b.op == "int" {
		return IntBig(new(big.Int).Add(a.IntVal(), b.IntVal()))
	}
	if a.op == "real" && b.op == "real" {
		return RealRat(new(big.Rat).Add(a.RatVal(), b.RatVal()))
	}
	if isZero(a) {
		return b
	}
	if isZero(b) {
		return a
	}
	// (x + c1) + c2
	if a.op == "+" && len(a.args) == 2 && a.args[1].op == "int" && b.op == "int" {
		return Add(a.args[0], Add(a.args[1], b))
	}
	return TS.mk("+", "", a.sort, a, b)
}

func Sub(a, b *Term) *Term {
	a, b = unifyNum(a, b)
	if a.op == "int" && b.op == "int" {
		return IntBig(new(big.Int).Sub(a.IntVal(), b.IntVal()))
	}
	if a.op == "real" && b.op == "real" {
		return RealRat(new(big.Rat).Sub(a.RatVal(), b.RatVal()))
	}
	if isZero(b) {
		return a
	}
	if a == b {
		return zeroOf(a.sort)
	}
	if b.op == "int" {
		return Add(a, Neg(b))
	}
	return TS.mk("-", "", a.sort, a, b)
}

func isZero(a *Term) bool {
	return a.op == "int" && a.IntVal().Sign() == 0 || a.op == "real" && a.RatVal().Sign() == 0
}
func isOne(a *Term) bool {
	return a.op == "int" && a.name == "1" || a.op == "real" && a.RatVal().Cmp(big.NewRat(1, 1)) == 0
}

func Mul(a, b *Term) *Term {
	a, b = unifyNum(a, b)
	if a.op == "int" && b.op == "int" {
		return IntBig(new(big.Int).Mul(a.IntVal(), b.IntVal()))
	}
	if a.op == "real" && b.op == "real" {
		return RealRat(new(big.Rat).Mul(a.RatVal(), b.RatVal()))
	}
	if isZero(a) || isZero(b) {
		return zeroOf(a.sort)
	}
	if isOne(a) {
		return b
	}
	if isOne(b) {
		return a
	}
	return TS.mk("*", "", a.sort, a, b)
}

// RDiv: real division.
func RDiv(a, b *Term) *Term {
	a, b = ToReal(a), ToReal(b)
	if a.op == "real" && b.op == "real" && b.RatVal().Sign() != 0 {
		return RealRat(new(big.Rat).Quo(a.RatVal(), b.RatVal()))
	}
	if isOne(b) {
		return a
	}
	return TS.mk("/", "", SReal, a, b)
}

// EDiv / EMod: SMT-LIB integer div/mod (Euclidean).
func EDiv(a, b *Term) *Term { return TS.mk("div", "", SInt, a, b) }
func EMod(a, b *Term) *Term { return TS.mk("mod", "", SInt, a, b) }

// TDiv: Go's truncated integer division.
func TDiv(a, b *Term) *Term {
	if a.op == "int" && b.op == "int" && b.IntVal().Sign() != 0 {
		return IntBig(new(big.Int).Quo(a.IntVal(), b.IntVal()))
	}
	if isOne(b) {
		return a
	}
	z := Int(0)
	if b.op == "int" && b.IntVal().Sign() > 0 {
		return Ite(Ge(a, z), EDiv(a, b), Neg(EDiv(Neg(a), b)))
	}
	return Ite(Ge(a, z),
		Ite(Gt(b, z), EDiv(a, b), Neg(EDiv(a, Neg(b)))),
		Ite(Gt(b, z), Neg(EDiv(Neg(a), b)), EDiv(Neg(a), Neg(b))))
}

// TRem: Go's % (sign follows dividend).
func TRem(a, b *Term) *Term {
	if a.op == "int" && b.op == "int" && b.IntVal().Sign() != 0 {
		return IntBig(new(big.Int).Rem(a.IntVal(), b.IntVal()))
	}
	return Sub(a, Mul(b, TDiv(a, b)))
}

func Select(arr, idx *Term) *Term {
	_, es := arr.sort.splitArr()
	// select(store(a,i,v), j)
	cur := arr
	for cur.op == "store" {
		i := cur.args[1]
		if i == idx {
			return cur.args[2]
		}
		if distinctLits(i, idx) {
			cur = cur.args[0]
			continue
		}
		break
	}
	if cur.op == "constarr" {
		return cur.args[0]
	}
	return TS.mk("select", "", es, cur, idx)
}

func distinctLits(a, b *Term) bool {
	if a.op == "int" && b.op == "int" {
		return a.name != b.name
	}
	return false
}

func Store(arr, idx, v *Term) *Term {
	_, es := arr.sort.splitArr()
	if v.sort != es {
		if es == SReal && v.sort == SInt {
			v = ToReal(v)
		} else {
			panic(fmt.Sprintf("store sort mismatch: %s into %s", v.sort, arr.sort))
		}
	}
	if arr.op == "store" && arr.args[1] == idx {
		arr = arr.args[0]
	}
	if v.op == "select" && v.args[0] == arr && v.args[1] == idx {
		return arr
	}
	return TS.mk("store", "", arr.sort, arr, idx, v)
}

// ConstArr: ((as const S) v)
func ConstArr(s Sort, v *Term) *Term { return TS.mk("constarr", "", s, v) }

func Quant(q string, vars []*Term, body *Term, pats ...[]*Term) *Term {
	if len(vars) == 0 {
		return body
	}
	if body == True || body == False {
		return body
	}
	args := append([]*Term{body}, vars...)
	n := 0
	for _, p := range pats {
		args = append(args, p...)
		n += len(p)
	}
	key := fmt.Sprint(len(vars))
	for _, p := range pats {
		key += fmt.Sprintf(",%d", len(p))
	}
	t := TS.mk(q, key, SBool, args...)
	t.bvars = vars
	t.pats = pats
	// a quantifier closes its variables; recompute bound flag
	t.bound = hasFreeBound(t, map[int]bool{})
	return t
}

func hasFreeBound(t *Term, closed map[int]bool) bool {
	if !t.bound && t.op != "forall" && t.op != "exists" {
		return false
	}
	switch t.op {
	case "bound":
		return !closed[t.id]
	case "forall", "exists":
		var added []int
		for _, v := range t.bvars {
			if !closed[v.id] {
				closed[v.id] = true
				added = append(added, v.id)
			}
		}
		r := hasFreeBound(t.args[0], closed)
		for _, p := range t.pats {
			for _, x := range p {
				if hasFreeBound(x, closed) {
					r = true
				}
			}
		}
		for _, id := range added {
			delete(closed, id)
		}
		return r
	}
	for _, a := range t.args {
		if hasFreeBound(a, closed) {
			return true
		}
	}
	return false
}

func Forall(vars []*Term, body *Term, pats ...[]*Term) *Term { return Quant("forall", vars, body, pats...) }
func Exists(vars []*Term, body *Term, pats ...[]*Term) *Term { return Quant("exists", vars, body, pats...) }

// Subst replaces terms by identity (used for bound variables and for spec function bodies).
func Subst(t *Term, m map[*Term]*Term) *Term {
	cache := map[*Term]*Term{}
	var rec func(t *Term) *Term
	rec = func(t *Term) *Term {
		if r, ok := m[t]; ok {
			return r
		}
		if len(t.args) == 0 {
			return t
		}
		if r, ok := cache[t]; ok {
			return r
		}
		changed := false
		na := make([]*Term, len(t.args))
		for i, a := range t.args {
			na[i] = rec(a)
			if na[i] != a {
				changed = true
			}
		}
		var r *Term
		if !changed {
			r = t
		} else {
			r = rebuild(t, na)
		}
		cache[t] = r
		return r
	}
	return rec(t)
}

func rebuild(t *Term, a []*Term) *Term {
	switch t.op {
	case "not":
		return Not(a[0])
	case "and":
		return And(a...)
	case "or":
		return Or(a...)
	case "=>":
		return Implies(a[0], a[1])
	case "ite":
		return Ite(a[0], a[1], a[2])
	case "=":
		return Eq(a[0], a[1])
	case "<=":
		return Le(a[0], a[1])
	case "<":
		return Lt(a[0], a[1])
	case "+":
		return Add(a[0], a[1])
	case "-":
		if len(a) == 1 {
			return Neg(a[0])
		}
		return Sub(a[0], a[1])
	case "*":
		return Mul(a[0], a[1])
	case "select":
		return Select(a[0], a[1])
	case "store":
		return Store(a[0], a[1], a[2])
	case "to_real":
		return ToReal(a[0])
	case "forall", "exists":
		nv := len(t.bvars)
		vars := a[1 : 1+nv]
		var pats [][]*Term
		off := 1 + nv
		for _, p := range t.pats {
			pats = append(pats, a[off:off+len(p)])
			off += len(p)
		}
		return Quant(t.op, vars, a[0], pats...)
	}
	return TS.mk(t.op, t.name, t.sort, a...)
}

// ---- printing ----

func litString(t *Term) string {
	switch t.op {
	case "int":
		if strings.HasPrefix(t.name, "-") {
			return "(- " + t.name[1:] + ")"
		}
		return t.name
	case "real":
		r := t.RatVal()
		neg := r.Sign() < 0
		if neg {
			r = new(big.Rat).Neg(r)
		}
		var s string
		if r.IsInt() {
			s = r.Num().String() + ".0"
		} else {
			s = "(/ " + r.Num().String() + ".0 " + r.Denom().String() + ".0)"
		}
		if neg {
			return "(- " + s + ")"
		}
		return s
	}
	return ""
}

type printer struct {
	names map[int]string
	defs  []string
	refs  map[int]int
	syms  map[string]bool
}

func (p *printer) count(t *Term) {
	p.refs[t.id]++
	if p.refs[t.id] > 1 {
		return
	}
	for _, a := range t.args {
		p.count(a)
	}
}

// hoistIte gives every ground if-then-else inside a pattern a declared name (z3 rejects a pattern that contains 'if',
// also through a define-fun, and then falls back to model-based instantiation): after a branch merge heaps are ite terms.
func (p *printer) hoistIte(t *Term, seen map[int]bool) {
	if seen[t.id] {
		return
	}
	seen[t.id] = true
	if t.op == "ite" && !t.bound {
		if n, ok := p.names[t.id]; ok && strings.HasPrefix(n, "pi") {
			return
		}
		body := p.str(t, false)
		n := fmt.Sprintf("pi%d", t.id)
		p.defs = append(p.defs, fmt.Sprintf("(declare-const %s %s)", n, t.sort), fmt.Sprintf("(assert (= %s %s))", n, body))
		p.names[t.id] = n
		return
	}
	if t.op == "forall" || t.op == "exists" {
		return
	}
	for _, a := range t.args {
		p.hoistIte(a, seen)
	}
}

func (p *printer) str(t *Term, top bool) string {
	if n, ok := p.names[t.id]; ok {
		return n
	}
	var s string
	switch t.op {
	case "const":
		p.syms[t.name] = true
		return t.name
	case "bound":
		return t.name
	case "true", "false":
		return t.op
	case "int", "real":
		return litString(t)
	case "constarr":
		s = fmt.Sprintf("((as const %s) %s)", t.sort, p.str(t.args[0], false))
	case "forall", "exists":
		var vs []string
		for _, v := range t.bvars {
			vs = append(vs, fmt.Sprintf("(%s %s)", v.name, v.sort))
		}
		body := p.str(t.args[0], false)
		if len(t.pats) > 0 {
			var ps []string
			for _, pat := range t.pats {
				var xs []string
				for _, x := range pat {
					p.hoistIte(x, map[int]bool{})
					xs = append(xs, p.str(x, false))
				}
				ps = append(ps, ":pattern ("+strings.Join(xs, " ")+")")
			}
			body = "(! " + body + " " + strings.Join(ps, " ") + ")"
		}
		s = fmt.Sprintf("(%s (%s) %s)", t.op, strings.Join(vs, " "), body)
	default:
		if len(t.args) == 0 {
			p.syms[t.op] = true
			s = t.op
			break
		}
		if _, ok := TS.decls[t.op]; ok {
			p.syms[t.op] = true
		}
		var sb strings.Builder
		sb.WriteByte('(')
		sb.WriteString(t.op)
		for _, a := range t.args {
			sb.WriteByte(' ')
			sb.WriteString(p.str(a, false))
		}
		sb.WriteByte(')')
		s = sb.String()
	}
	if !t.bound && p.refs[t.id] > 1 && len(t.args) > 0 {
		n := fmt.Sprintf("t%d", t.id)
		p.defs = append(p.defs, fmt.Sprintf("(define-fun %s () %s %s)", n, t.sort, s))
		p.names[t.id] = n
		return n
	}
	return s
}

// SMTQuery prints a query asserting all of asserts; extra are axioms text already in SMT syntax.
func SMTQuery(asserts []*Term, prelude []string, getModel bool) string {
	p := &printer{names: map[int]string{}, refs: map[int]int{}, syms: map[string]bool{}}
	{
		// the same fact is often assumed at several program points (range facts at every read): assert it once
		seen := map[int]bool{}
		uniq := asserts[:0:0]
		for _, a := range asserts {
			if a == True || seen[a.id] {
				continue
			}
			seen[a.id] = true
			uniq = append(uniq, a)
		}
		asserts = uniq
	}
	for _, a := range asserts {
		p.count(a)
	}
	var body []string
	for _, a := range asserts {
		s := p.str(a, true)
		body = append(body, "(assert "+s+")")
	}
	var sb strings.Builder
	sb.WriteString("(set-option :produce-models true)\n(set-logic ALL)\n")
	// declarations: every declared symbol that occurs, in declaration order (prelude may mention more)
	pre := strings.Join(prelude, "\n")
	for _, n := range TS.order {
		ax, ok := TS.axioms[n]
		if ok && p.syms[n] {
			if strings.HasPrefix(ax, "; see ") {
				ax = TS.axioms[strings.TrimPrefix(ax, "; see ")]
			}
			pre += "\n;" + strings.ReplaceAll(ax, "\n", " ")
		}
	}
	for _, n := range TS.order {
		if p.syms[n] || (pre != "" && strings.Contains(pre, n)) {
			sb.WriteString(TS.decls[n])
			sb.WriteByte('\n')
		}
	}
	if pre != "" {
		sb.WriteString(pre)
		sb.WriteByte('\n')
	}
	emitted := map[string]bool{}
	for _, n := range TS.order {
		ax, ok := TS.axioms[n]
		if !ok || !p.syms[n] {
			continue
		}
		if strings.HasPrefix(ax, "; see ") {
			n = strings.TrimPrefix(ax, "; see ")
			ax = TS.axioms[n]
		}
		if emitted[n] {
			continue
		}
		emitted[n] = true
		sb.WriteString(ax)
		sb.WriteByte('\n')
	}
	// defs must be interleaved in dependency order: they were appended post-order, so fine.
	for _, d := range p.defs {
		sb.WriteString(d)
		sb.WriteByte('\n')
	}
	for _, b := range body {
		sb.WriteString(b)
		sb.WriteByte('\n')
	}
	sb.WriteString("(check-sat)\n")
	if getModel {
		sb.WriteString("(get-model)\n")
	}
	return sb.String()
}

// Show prints a term compactly for diagnostics.
func Show(t *Term) string {
	p := &printer{names: map[int]string{}, refs: map[int]int{}, syms: map[string]bool{}}
	s := p.str(t, true)
	if len(s) > 400 {
		s = s[:400] + "…"
	}
	return s
}

// freeSyms collects constant symbols of a term.
func freeSyms(t *Term, out map[string]Sort, seen map[int]bool) {
	if seen[t.id] {
		return
	}
	seen[t.id] = true
	if t.op == "const" {
		out[t.name] = t.sort
	}
	for _, a := range t.args {
		freeSyms(a, out, seen)
	}
}

func sortedKeys[V any](m map[string]V) []string {
	ks := make([]string, 0, len(m))
	for k := range m {
		ks = append(ks, k)
	}
	sort.Strings(ks)
	return ks
}
