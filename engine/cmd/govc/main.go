package main

import (
	"fmt"
	"golang.org/x/tools/go/packages"
	"golang.org/x/tools/go/ssa"
	"golang.org/x/tools/go/ssa/ssautil"
)

func main() {
	cfg := &packages.Config{Mode: packages.LoadSyntax, Dir: "/repo", BuildFlags: []string{"-tags=verif"}}
	pkgs, err := packages.Load(cfg, "./pkg/koordlet/util/system")
	if err != nil {
		panic(err)
	}
	prog, spkgs := ssautil.Packages(pkgs, ssa.NaiveForm|ssa.GlobalDebug)
	_ = prog
	spkgs[0].Build()
	fmt.Println(spkgs[0].Func("MilliCPUToQuota") != nil)
}
