package main

import (
	"hash/fnv"
	"encoding/json"
	"flag"
	"fmt"
	"os"
	"path/filepath"
	"regexp"
	"sort"
	"strings"
	"time"
)

func shortFunc(key string) string {
	// (*a/b/c.T).M -> c.(*T).M ; a/b/c.F -> c.F
	if strings.HasPrefix(key, "(") {
		cl := strings.Index(key, ")")
		inner := key[1:cl]
		star := ""
		if strings.HasPrefix(inner, "*") {
			star = "*"
			inner = inner[1:]
		}
		pk, tn := inner, ""
		if i := strings.LastIndex(inner, "."); i >= 0 {
			pk, tn = inner[:i], inner[i+1:]
		}
		return filepath.Base(pk) + ".(" + star + tn + ")" + key[cl+1:]
	}
	if i := strings.LastIndex(key, "/"); i >= 0 {
		return key[i+1:]
	}
	return key
}

func contains(xs []string, x string) bool {
	for _, y := range xs {
		if y == x {
			return true
		}
	}
	return false
}

type propRun struct {
	prop      string
	tier      string
	seed      int
	repo      string
	verif     string
	funcOnly  string
	dump      bool
	update    bool
	verbose   bool
	quickT    int
	outDir    string
	slowT     int
}

func main() {
	if len(os.Args) < 2 {
		fmt.Fprintln(os.Stderr, "usage: govc check|func ...")
		os.Exit(2)
	}
	switch os.Args[1] {
	case "check":
		fs := flag.NewFlagSet("check", flag.ExitOnError)
		r := &propRun{}
		fs.StringVar(&r.prop, "prop", "", "property id")
		fs.StringVar(&r.tier, "tier", "quick", "quick|thorough")
		fs.IntVar(&r.seed, "seed", 0, "seed")
		fs.StringVar(&r.repo, "repo", "/repo", "repository")
		fs.StringVar(&r.verif, "verif", "/verif", "verif dir")
		fs.StringVar(&r.funcOnly, "func", "", "only functions whose key contains this")
		fs.BoolVar(&r.dump, "dump", false, "keep SMT files and print failing obligations in detail")
		fs.BoolVar(&r.update, "update-expect", false, "rewrite the .expect list from the discharged obligations")
		fs.BoolVar(&r.verbose, "v", false, "verbose")
		fs.StringVar(&r.outDir, "out", "", "write evidence/ and replay/ below this directory instead of the verif dir (scratch runs)")
		fs.IntVar(&r.quickT, "qt", 3, "first solver timeout (s)")
		fs.IntVar(&r.slowT, "st", 30, "fallback solver timeout (s)")
		_ = fs.Parse(os.Args[2:])
		os.Exit(runCheck(r))
	case "sweep":
		os.Exit(runSweep(os.Args[2:]))
	case "replay":
		os.Exit(runReplayCmd(os.Args[2:]))
	default:
		fmt.Fprintln(os.Stderr, "unknown command", os.Args[1])
		os.Exit(2)
	}
}

type knownFinding struct {
	Prop  string
	Oblig string
	Text  string
}

var kfRe = regexp.MustCompile(`^finding:\s+property=(C\d\d)\s+obligation=(\S+)\s+(.*)$`)

func readKnownFindings(path string) []knownFinding {
	data, err := os.ReadFile(path)
	if err != nil {
		return nil
	}
	var out []knownFinding
	for _, ln := range strings.Split(string(data), "\n") {
		if m := kfRe.FindStringSubmatch(strings.TrimSpace(ln)); m != nil {
			out = append(out, knownFinding{m[1], m[2], m[3]})
		}
	}
	return out
}

func readExpect(path string) (map[string]bool, bool) {
	data, err := os.ReadFile(path)
	if err != nil {
		return nil, false
	}
	out := map[string]bool{}
	for _, ln := range strings.Split(string(data), "\n") {
		ln = strings.TrimSpace(ln)
		if ln == "" || strings.HasPrefix(ln, "#") {
			continue
		}
		if strings.Contains(ln, "/sweep/") || expectable(ln) {
			out[splitBase(ln)] = true
		}
	}
	return out, true
}

// expectable: only obligations that stand for a clause somebody wrote (ensures, invariants, call-site asserts, lemmas)
// are expected to be generated again. Frame, callee-precondition, no-panic, overflow and cover obligations depend on how
// the engine happens to treat callees and heaps (inlined or under contract, touched or not); their disappearance after a
// harmless change must not raise an alarm.
func expectable(name string) bool {
	return strings.Contains(name, "/ensures#") || strings.Contains(name, "/inv#") || strings.Contains(name, "/assert:") || strings.Contains(name, "/lemma")
}

var splitSuffix = regexp.MustCompile(`\.\d+$`)

// splitBase strips the ".k" suffix of a conjunct obtained by goal splitting: how many conjuncts a goal has depends on
// what the simplifier folds away, so expectations and known findings are kept per goal, not per conjunct.
func splitBase(name string) string { return splitSuffix.ReplaceAllString(name, "") }

func runCheck(r *propRun) int {
	t0 := time.Now()
	eng := NewEngine(r.repo)
	files, err := findContractFiles(r.repo)
	if err != nil {
		fmt.Println("error:", err)
		return 2
	}
	// parse every contract file to find the packages of this property
	type pf struct {
		sf  *SpecFile
		dir string
	}
	var parsed []pf
	for _, f := range files {
		sf, err := ParseSpecFile(f, "")
		if err != nil {
			if data, _ := os.ReadFile(f); !strings.Contains(string(data), r.prop) {
				fmt.Println("warning: ignoring contract file of other properties with a syntax error:", err)
				continue
			}
			fmt.Println("contract file error:", err)
			return failHard(r, fmt.Sprintf("contract file error: %v", err))
		}
		rel, _ := filepath.Rel(r.repo, filepath.Dir(f))
		parsed = append(parsed, pf{sf, rel})
	}
	need := map[string]bool{}
	for _, p := range parsed {
		for _, c := range p.sf.Contracts {
			if !c.Extern && contains(c.Props, r.prop) {
				need[p.dir] = true
			}
		}
		for _, l := range p.sf.Lemmas {
			if contains(l.Props, r.prop) {
				need[p.dir] = true
			}
		}
	}
	// uses: transitive
	changed := true
	for changed {
		changed = false
		for _, p := range parsed {
			if !need[p.dir] {
				continue
			}
			for _, u := range p.sf.Uses {
				if u != "" && !need[u] {
					need[u] = true
					changed = true
				}
			}
		}
	}
	if len(need) == 0 {
		return failHard(r, "no contract is tagged with "+r.prop)
	}
	var patterns []string
	for d := range need {
		patterns = append(patterns, "./"+d)
	}
	sort.Strings(patterns)
	if err := eng.Load(patterns); err != nil {
		fmt.Println("load error:", err)
		return failHard(r, "cannot load packages (does the tree build?): "+firstLines(err.Error(), 6))
	}
	tLoad := time.Since(t0).Seconds()
	// bounded stand-ins run beside the deductive part (see bounded.go); never counted as proved
	var boundedCh []chan *boundedResult
	if r.funcOnly == "" && !r.update {
		for _, bc := range loadBounded(r.verif, r.prop) {
			ch := make(chan *boundedResult, 1)
			boundedCh = append(boundedCh, ch)
			go func(bc boundedCheck) { ch <- runBounded(r, bc) }(bc)
		}
	}
	// register lib specs, then the contract files of loaded packages
	libs, _ := filepath.Glob(filepath.Join(r.verif, "lib", "*.spec"))
	sort.Strings(libs)
	for _, lf := range libs {
		sf, err := ParseSpecFile(lf, "")
		if err != nil {
			return failHard(r, fmt.Sprintf("lib spec error: %v", err))
		}
		if err := eng.AddSpecFile(sf); err != nil {
			return failHard(r, err.Error())
		}
	}
	for _, p := range parsed {
		pkgPath := eng.module + "/" + p.dir
		if eng.typesPkgs[pkgPath] == nil {
			continue
		}
		sf, err := ParseSpecFile(p.sf.Path, pkgPath)
		if err != nil {
			return failHard(r, err.Error())
		}
		if err := eng.AddSpecFile(sf); err != nil {
			return failHard(r, err.Error())
		}
	}
	// functions of this property
	notes := map[string]bool{}
	var cons []*Contract
	for _, c := range eng.contracts {
		if c.Extern || !contains(c.Props, r.prop) {
			continue
		}
		if c.Opts["trusted"] != "" {
			notes["trusted:"+c.FullKey] = true
			continue
		}
		if r.funcOnly != "" && !strings.Contains(c.FullKey, r.funcOnly) {
			continue
		}
		cons = append(cons, c)
	}
	sort.Slice(cons, func(i, j int) bool { return cons[i].FullKey < cons[j].FullKey })

	workDir := filepath.Join(r.verif, ".work", fmt.Sprintf("%s.%d", r.prop, os.Getpid()))
	_ = os.MkdirAll(workDir, 0o755)
	if !r.dump {
		defer os.RemoveAll(workDir)
	}

	var verdicts []*Verdict
	var texts []string
	var funcErrs []string
	funcs := []string{}
	tGen0 := time.Now()
	for _, c := range cons {
		fr := eng.VerifyFunc(c)
		sk := shortFunc(c.FullKey)
		if fr.Err != nil {
			funcErrs = append(funcErrs, fmt.Sprintf("%s: %v", sk, fr.Err))
			continue
		}
		funcs = append(funcs, sk)
		for n := range fr.Exec.notes {
			notes[n] = true
			if r.verbose && (strings.HasPrefix(n, "havoc:") || strings.HasPrefix(n, "inline:")) {
				fmt.Printf("  note %s: %s\n", sk, n)
			}
		}
		// split conjunctive goals into separate obligations (smaller, more stable queries)
		var obls []*Oblig
		for _, o := range fr.Obligs {
			if !o.ExpectSat && o.Goal != nil && o.Goal.op == "and" && len(o.Goal.args) <= 12 && (o.Kind == "ensures" || o.Kind == "loopinit" || o.Kind == "looppreserve") {
				for k, part := range o.Goal.args {
					c := *o
					c.Goal = part
					c.Name = fmt.Sprintf("%s.%d", o.Name, k+1)
					obls = append(obls, &c)
				}
				continue
			}
			obls = append(obls, o)
		}
		for _, o := range obls {
			asserts := append([]*Term{}, fr.Exec.assumps[:o.NAssump]...)
			asserts = append(asserts, o.Guard)
			if !o.ExpectSat {
				asserts = append(asserts, Not(o.Goal))
			}
			q := SMTQuery(asserts, nil, false)
			name := r.prop + "/" + sk + "/" + o.Name
			v := &Verdict{Name: name, Oblig: o, FuncKey: c.FullKey}
			if o.Kind == "frame" || o.Kind == "nopanic" {
				// first attempt without quantified assumptions (a weaker, hence sound, hypothesis set)
				var qf []*Term
				for _, a := range asserts {
					if !hasQuant(a, map[int]bool{}) {
						qf = append(qf, a)
					}
				}
				if len(qf) < len(asserts) {
					v.AltText = q
					q = SMTQuery(qf, nil, false)
				}
			}
			verdicts = append(verdicts, v)
			texts = append(texts, q)
		}
	}
	// lemmas
	for _, l := range eng.lemmas {
		if !contains(l.Props, r.prop) || r.funcOnly != "" && !strings.Contains(l.Name, r.funcOnly) {
			continue
		}
		q, err := eng.lemmaQuery(l)
		name := r.prop + "/lemma:" + l.Name
		if err != nil {
			funcErrs = append(funcErrs, fmt.Sprintf("lemma %s: %v", l.Name, err))
			continue
		}
		verdicts = append(verdicts, &Verdict{Name: name, Oblig: &Oblig{Name: "lemma:" + l.Name, Kind: "lemma", Where: l.Where}})
		texts = append(texts, q)
		funcs = append(funcs, "lemma:"+l.Name)
	}
	// thorough tier: zero-annotation no-panic sweep over the other functions of the property's anchor files
	sweepArmed := map[string]bool{}
	sweepFuncs := 0
	if r.tier == "thorough" && r.funcOnly == "" {
		armed, _ := readExpect(filepath.Join(r.verif, "obligations", r.prop+".sweep.expect"))
		anchors := anchorFiles(r.verif, r.prop)
		under := map[string]bool{}
		for _, c := range cons {
			under[c.FullKey] = true
		}
		var keys []string
		for k, fn := range eng.funcsByKey {
			if under[k] || len(fn.Blocks) == 0 || fn.Pkg == nil || fn.Synthetic != "" || eng.ssaPkgs[fn.Pkg.Pkg.Path()] == nil || !fn.Pos().IsValid() {
				continue
			}
			file := strings.TrimPrefix(eng.fset.Position(fn.Pos()).Filename, r.repo+"/")
			if anchors[file] {
				keys = append(keys, k)
			}
		}
		sort.Strings(keys)
		for _, k := range keys {
			func() {
				defer func() { _ = recover() }()
				c := &Contract{Key: k, FullKey: k, PkgPath: eng.funcsByKey[k].Pkg.Pkg.Path(), LoopInv: map[int][]*Clause{}, LoopMod: map[int][]*SExpr{}, Opts: map[string]string{"nopanic": "all"}}
				fr := eng.VerifyFunc(c)
				if fr.Err != nil {
					return
				}
				sweepFuncs++
				occ := map[string]int{}
				for _, o := range fr.Obligs {
					if o.Kind != "nopanic" {
						continue
					}
					// named after the text of the source line, not an ordinal: edits elsewhere in the function must
					// not move an armed name onto a different dereference
					base := o.Name
					if i := strings.LastIndex(base, "#"); i >= 0 {
						base = base[:i]
					}
					stable := fmt.Sprintf("%s@%s", base, lineHash(r.repo, o.Where))
					occ[stable]++
					if occ[stable] > 1 {
						stable = fmt.Sprintf("%s~%d", stable, occ[stable])
					}
					name := r.prop + "/sweep/" + shortFunc(k) + "/" + stable
					if !r.update && !armed[name] {
						continue // only obligations that discharge on the unchanged tree are armed
					}
					sweepArmed[name] = true
					asserts := append([]*Term{}, fr.Exec.assumps[:o.NAssump]...)
					asserts = append(asserts, o.Guard, Not(o.Goal))
					verdicts = append(verdicts, &Verdict{Name: name, Oblig: o, FuncKey: k})
					texts = append(texts, SMTQuery(asserts, nil, false))
				}
			}()
		}
	}
	tGen := time.Since(tGen0).Seconds()

	cfg := solveCfg{workDir: workDir, quickT: r.quickT, slowT: r.slowT, tier: r.tier, parallel: 14}
	if r.tier == "thorough" {
		cfg.slowT = 45
		cfg.parallel = 5
	}
	tSolve0 := time.Now()
	// obligations recorded as known findings are expected to fail: give them the first two solver stages only
	cfg.arming = r.update
	cfg.short = map[string]bool{}
	for _, kf := range readKnownFindings(filepath.Join(r.verif, "KNOWN_FINDINGS.txt")) {
		if kf.Prop == r.prop {
			cfg.short[kf.Oblig] = true
		}
	}
	solveAll(cfg, verdicts, texts)
	tSolve := time.Since(tSolve0).Seconds()

	// expectations
	expectPath := filepath.Join(r.verif, "obligations", r.prop+".expect")
	expect, haveExpect := readExpect(expectPath)
	known := readKnownFindings(filepath.Join(r.verif, "KNOWN_FINDINGS.txt"))
	isKnown := func(name string) *knownFinding {
		for i := range known {
			if known[i].Prop == r.prop && (known[i].Oblig == name || known[i].Oblig == splitBase(name)) {
				return &known[i]
			}
		}
		return nil
	}

	sort.Slice(verdicts, func(i, j int) bool { return verdicts[i].Name < verdicts[j].Name })
	nObl, nDis, nCover := 0, 0, 0
	sweepNotes := 0
	var violations []string
	var knownHit []string
	seen := map[string]bool{}
	solverTime := 0.0
	bySolver := map[string]int{}
	for _, v := range verdicts {
		seen[splitBase(v.Name)] = true
		solverTime += v.Secs
		switch v.Status {
		case "covered":
			nCover++
		case "vacuous":
			violations = append(violations, v.Name)
			fmt.Printf("VACUOUS %s: precondition/path is unsatisfiable\n", v.Name)
		case "discharged":
			nObl++
			nDis++
			bySolver[v.Solver]++
		case "failed":
			if strings.HasPrefix(v.Name, r.prop+"/sweep/") {
				if !r.update {
					// a line that was provably panic-free no longer is: worth a look, but it is not the property
					fmt.Printf("SWEEP-NOTE property=%s %s no longer provably panic-free (%s) [%s]\n", r.prop, v.Name, v.Answer, v.Oblig.Where)
					sweepNotes++
				}
				continue // never a violation: the sweep has no contracts, so a failure may just need a precondition
			}
			nObl++
			if kf := isKnown(v.Name); kf != nil {
				knownHit = append(knownHit, fmt.Sprintf("KNOWN-FINDING: property=%s %s — %s", r.prop, v.Name, kf.Text))
				nObl--
				continue
			}
			violations = append(violations, v.Name)
		}
		if r.verbose || v.Status == "failed" || v.Status == "vacuous" {
			fmt.Printf("  %-10s %-8s %-7s %6.2fs %7dB %s  [%s]\n", v.Status, v.Answer, v.Solver, v.Secs, v.Size, v.Name, v.Oblig.Where)
		}
	}
	var missing []string
	if haveExpect && r.funcOnly == "" {
		for n := range expect {
			if !seen[n] {
				missing = append(missing, n)
			}
		}
		sort.Strings(missing)
	}
	for _, fe := range funcErrs {
		fmt.Println("FUNCTION-ERROR", fe)
	}

	if r.update {
		var lines, sweepLines []string
		bad := map[string]bool{}
		for _, v := range verdicts {
			if v.Status != "discharged" && v.Status != "covered" {
				bad[splitBase(v.Name)] = true
			}
		}
		done := map[string]bool{}
		for _, v := range verdicts {
			b := splitBase(v.Name)
			if (v.Status == "discharged" || v.Status == "covered") && !bad[b] && !done[b] {
				done[b] = true
				if strings.HasPrefix(b, r.prop+"/sweep/") {
					sweepLines = append(sweepLines, b)
				} else if expectable(b) {
					lines = append(lines, b)
				}
			}
		}
		_ = os.MkdirAll(filepath.Dir(expectPath), 0o755)
		_ = os.WriteFile(expectPath, []byte(strings.Join(lines, "\n")+"\n"), 0o644)
		fmt.Printf("wrote %s (%d obligations)\n", expectPath, len(lines))
		if r.tier == "thorough" {
			sp := filepath.Join(r.verif, "obligations", r.prop+".sweep.expect")
			_ = os.WriteFile(sp, []byte(strings.Join(sweepLines, "\n")+"\n"), 0o644)
			fmt.Printf("wrote %s (%d armed sweep obligations)\n", sp, len(sweepLines))
		}
	}

	// report
	exit := 0
	replayDir := filepath.Join(r.outBase(), "replay", r.prop)
	emit := func(name, reason string, v *Verdict) {
		_ = os.MkdirAll(replayDir, 0o755)
		rp := filepath.Join(replayDir, fileBase(strings.TrimPrefix(name, r.prop+"/"))+".json")
		rec := map[string]interface{}{"property": r.prop, "obligation": name, "reason": reason, "tier": r.tier}
		suffix := " no-failing-input-found"
		if v != nil {
			rec["solver"] = v.Solver
			rec["answer"] = v.Answer
			rec["where"] = v.Oblig.Where
			rec["detail"] = v.Detail
			if v.Answer == "sat" {
				m := getModel(v.File, 20)
				rec["solver_output"] = truncate(m, 20000)
				if ok, info := tryReplay(r, eng, v, m, rec); ok {
					suffix = ""
					rec["replay"] = info
				} else if info != "" {
					rec["replay_note"] = info
				}
			} else {
				rec["solver_output"] = v.Answer
			}
		}
		data, _ := json.MarshalIndent(rec, "", " ")
		_ = os.WriteFile(rp, data, 0o644)
		fmt.Printf("VIOLATION property=%s replay=%s obligation=%s (%s)%s\n", r.prop, rp, name, reason, suffix)
		exit = 1
	}
	vmap := map[string]*Verdict{}
	for _, v := range verdicts {
		vmap[v.Name] = v
	}
	for _, n := range violations {
		v := vmap[n]
		reason := "obligation not discharged: " + v.Answer
		if v.Status == "vacuous" {
			reason = "vacuity: precondition or path unsatisfiable"
		}
		emit(n, reason, v)
	}
	for _, n := range missing {
		if isKnown(n) != nil {
			continue
		}
		emit(n, "expected obligation can no longer be generated (function/loop under contract changed or left the subset)", nil)
	}
	for _, fe := range funcErrs {
		emit(r.prop+"/"+strings.SplitN(fe, ":", 2)[0]+"/generate", "function under contract cannot be verified: "+fe, nil)
	}
	var boundedEv []map[string]interface{}
	nBoundedBad, boundedCases := 0, 0
	for _, ch := range boundedCh {
		b := <-ch
		boundedEv = append(boundedEv, b.evidence())
		boundedCases += b.Cases
		name := r.prop + "/bounded/" + b.C.Name
		fmt.Printf("  bounded    %-8s %6.1fs %s: %d cases (%d non-trivial), %s [%s]\n", b.Status, b.Secs, name, b.Cases, b.Nontrivial, b.C.Bound, b.C.Function)
		if b.Status == "held" {
			continue
		}
		if kf := isKnown(name); kf != nil {
			knownHit = append(knownHit, fmt.Sprintf("KNOWN-FINDING: property=%s %s — %s", r.prop, name, kf.Text))
			continue
		}
		nBoundedBad++
		_ = os.MkdirAll(replayDir, 0o755)
		rp := filepath.Join(replayDir, fileBase("bounded/"+b.C.Name)+".json")
		rec := map[string]interface{}{"property": r.prop, "obligation": name, "tier": r.tier, "where": b.C.Pkg + " " + b.C.Function,
			"solver": "go test (bounded stand-in, no solver)", "answer": b.Status, "replay_test": b.C.Src, "replay_pkg": b.C.Pkg,
			"replay_run": "^TestVerifBounded$", "solver_output": truncate(b.Output, 20000)}
		suffix := ""
		if b.Status == "failed" {
			rec["reason"] = "bounded stand-in found a failing input on the real function: " + b.FailCase
			rec["replay"] = b.FailCase
		} else {
			rec["reason"] = "bounded stand-in can no longer be built or run against the function (signature changed, or the tree does not build)"
			suffix = " no-failing-input-found"
		}
		data, _ := json.MarshalIndent(rec, "", " ")
		_ = os.WriteFile(rp, data, 0o644)
		fmt.Printf("VIOLATION property=%s replay=%s obligation=%s (%s)%s\n", r.prop, rp, name, truncate(fmt.Sprint(rec["reason"]), 400), suffix)
		exit = 1
	}
	for _, k := range knownHit {
		fmt.Println(k)
	}
	if nObl == 0 && exit == 0 {
		fmt.Println("error: zero obligations generated")
		emit(r.prop+"/no-obligations", "zero obligations generated", nil)
	}

	// evidence
	var assumptions, trusted []string
	cat := map[string][]string{}
	for n := range notes {
		k := strings.SplitN(n, ":", 2)
		cat[k[0]] = append(cat[k[0]], k[1])
	}
	for k := range cat {
		sort.Strings(cat[k])
	}
	for _, x := range cat["extern"] {
		assumptions = append(assumptions, "assumed contract of dependency: "+x)
	}
	for _, x := range cat["pure"] {
		assumptions = append(assumptions, "pure observer (uninterpreted function of its arguments; object assumed immutable): "+x)
	}
	for _, x := range cat["axiom"] {
		assumptions = append(assumptions, "axiom (assumed without proof): "+x)
	}
	for _, x := range cat["getter"] {
		assumptions = append(assumptions, "getter of an environment object (no effect; arbitrary result made of objects that existed before the call): "+x)
	}
	for _, x := range cat["trusted"] {
		assumptions = append(assumptions, "trusted (unverified) contract on repository function: "+x)
	}
	for _, x := range cat["observer"] {
		assumptions = append(assumptions, "function-valued parameter/field called as an observer (no effect on modelled state, arbitrary result): "+x)
	}
	for _, x := range cat["summary"] {
		assumptions = append(assumptions, "un-contracted callee summarised by its inferred write-set (results arbitrary): "+shortFunc(x))
	}
	for _, x := range cat["havoc"] {
		assumptions = append(assumptions, "unmodelled call, results arbitrary and heap forgotten: "+x)
	}
	if len(cat["ignore"]) > 0 {
		assumptions = append(assumptions, "calls with no modelled effect (logging/locking/metrics): "+strings.Join(dedupShort(cat["ignore"]), ", "))
	}
	assumptions = append(assumptions,
		"sequential semantics: goroutine interleavings are not explored; sync.Mutex operations are no-ops",
		"machine integers are mathematical integers except in functions marked 'arith checked'",
		"float64 is modelled as real; resource.Quantity is an exact real",
		"append always yields a fresh backing array (no aliasing through append)",
		"allocation model: a callee that is not executed may expose new objects only in the id spaces reachable by type from its results and from what it may modify; error and context.Context values, and interface values handed out by 'ignore'd functions, are assumed not to carry references to newly allocated modelled objects",
		"partial correctness: termination is not proved; implicit panics (nil/index) are assumed absent unless the function is marked nopanic")
	for _, b := range boundedEv {
		assumptions = append(assumptions, fmt.Sprintf("bounded stand-in, NOT proved: %v of %v is only run exhaustively up to the bound [%v] (%v cases this run)", b["stands_in_for"], b["function"], b["bound"], b["cases"]))
	}
	trusted = append(trusted, "go/packages+go/types+go/ssa (x/tools v0.50.0, naive form)", "govc VC generator (/verif/engine)", "z3 5.1.0 / z3 4.8.12 / cvc5 1.0.3", "built-in library theory of /verif/engine/cmd/govc/theory.go (Quantity, ResourceList accessors, math, bits, sets, time)")
	for _, lf := range libs {
		trusted = append(trusted, "extern contracts in "+strings.TrimPrefix(lf, r.verif+"/"))
	}
	var samples []map[string]interface{}
	for i, v := range verdicts {
		if i%(len(verdicts)/6+1) == 0 {
			samples = append(samples, map[string]interface{}{"obligation": v.Name, "status": v.Status, "solver": v.Solver, "secs": round3(v.Secs), "smt_bytes": v.Size, "where": v.Oblig.Where})
		}
	}
	var obList []map[string]interface{}
	for _, v := range verdicts {
		obList = append(obList, map[string]interface{}{"name": v.Name, "status": v.Status, "answer": v.Answer, "solver": v.Solver, "secs": round3(v.Secs)})
	}
	ev := map[string]interface{}{
		"property_id": r.prop,
		"tier":        r.tier,
		"seed":        r.seed,
		"level":       "proof",
		"coverage": map[string]interface{}{
			"obligations":              nObl,
			"discharged":               nDis,
			"checker_cmd":              fmt.Sprintf("./check %s --tier %s", r.prop, r.tier),
			"trusted_base":             trusted,
			"functions_under_contract": funcs,
			"cover_queries_sat":        nCover,
			"by_solver":                bySolver,
			"solver_time_s":            round3(solverTime),
			"load_s":                   round3(tLoad),
			"vcgen_s":                  round3(tGen),
			"solve_wall_s":             round3(tSolve),
			"inlined_helpers":          cat["inline"],
			"callee_contracts_used":    cat["contract"],
			"samples":                  samples,
			"obligation_list":          obList,
			"known_findings_hit":       knownHit,
			"function_errors":          funcErrs,
			"nopanic_sweep_functions":  sweepFuncs,
			"nopanic_sweep_armed":      len(sweepArmed),
			"nopanic_sweep_notes":      sweepNotes,
			"bounded":                  boundedEv,
			"bounded_cases_total":      boundedCases,
		},
		"assumptions": assumptions,
		"wall_s":      round3(time.Since(t0).Seconds()),
		"violations":  len(violations) + len(missing) + len(funcErrs) + nBoundedBad,
	}
	_ = os.MkdirAll(filepath.Join(r.outBase(), "evidence"), 0o755)
	data, _ := json.MarshalIndent(ev, "", " ")
	if r.funcOnly == "" {
		_ = os.WriteFile(filepath.Join(r.outBase(), "evidence", r.prop+".json"), data, 0o644)
	}
	fmt.Printf("%s %s: %d functions, %d obligations, %d discharged, %d cover ok, %d violations, %d known; load %.1fs gen %.1fs solve %.1fs\n",
		r.prop, r.tier, len(funcs), nObl, nDis, nCover, len(violations)+len(missing)+len(funcErrs)+nBoundedBad, len(knownHit), tLoad, tGen, tSolve)
	return exit
}

func dedupShort(xs []string) []string {
	m := map[string]bool{}
	for _, x := range xs {
		m[shortFunc(x)] = true
	}
	return sortedKeys(m)
}

func round3(f float64) float64 { return float64(int64(f*1000+0.5)) / 1000 }

func truncate(s string, n int) string {
	if len(s) > n {
		return s[:n] + "…"
	}
	return s
}

func (r *propRun) outBase() string {
	if r.outDir != "" {
		return r.outDir
	}
	return r.verif
}

func failHard(r *propRun, msg string) int {
	_ = os.MkdirAll(filepath.Join(r.outBase(), "replay", r.prop), 0o755)
	rp := filepath.Join(r.outBase(), "replay", r.prop, "generate.json")
	data, _ := json.MarshalIndent(map[string]interface{}{"property": r.prop, "obligation": r.prop + "/generate", "reason": msg}, "", " ")
	_ = os.WriteFile(rp, data, 0o644)
	fmt.Printf("VIOLATION property=%s replay=%s obligation=%s/generate (%s) no-failing-input-found\n", r.prop, rp, r.prop, strings.ReplaceAll(msg, "\n", " | "))
	ev := map[string]interface{}{"property_id": r.prop, "tier": r.tier, "seed": r.seed, "level": "proof",
		"coverage": map[string]interface{}{"obligations": 1, "discharged": 0, "checker_cmd": "./check " + r.prop, "trusted_base": []string{}, "explanation": msg},
		"wall_s":   0.0, "violations": 1}
	data, _ = json.MarshalIndent(ev, "", " ")
	_ = os.MkdirAll(filepath.Join(r.outBase(), "evidence"), 0o755)
	_ = os.WriteFile(filepath.Join(r.outBase(), "evidence", r.prop+".json"), data, 0o644)
	return 1
}

// lemmaQuery builds the query for a lemma: axioms of the same file set plus the negated statement.
func (e *Engine) lemmaQuery(l *Lemma) (q string, err error) {
	ex := &Exec{eng: e, heapSrt: map[string]Sort{}, notes: map[string]bool{}, callOrd: map[string]int{}, ordinal: map[string]int{}, checked: map[string]bool{}}
	st := &State{cells: map[*Cell]Val{}, heap: map[string]*Term{}, guard: True, wm: newWMs()}
	ex.entry = st
	defer func() {
		if r := recover(); r != nil {
			switch x := r.(type) {
			case specErr:
				err = fmt.Errorf("%s", x.msg)
			case Unsupported:
				err = fmt.Errorf("%s", x.msg)
			default:
				// lemmas are proved without a function context: a lemma that reads the heap is outside what this supports
				err = fmt.Errorf("lemma %s cannot be evaluated without a function context (heap reads are not supported in lemmas): %v", l.Name, r)
			}
		}
	}()
	env := ex.newEnv(l.PkgPath, st)
	for _, ln := range l.Uses {
		for _, o := range e.lemmas {
			if o.Name == ln && o.PkgPath == l.PkgPath && o != l {
				ex.assumeRaw(ex.evalSpec(env, o.E).S())
			}
		}
	}
	var asserts []*Term
	for _, a := range e.axioms {
		if a.PkgPath == l.PkgPath || a.PkgPath == "" {
			asserts = append(asserts, ex.evalSpec(env, a.E).S())
		}
	}
	goal := ex.evalSpec(env, l.E).S()
	asserts = append(asserts, ex.assumps...)
	asserts = append(asserts, Not(goal))
	return SMTQuery(asserts, nil, false), nil
}

// runSweep executes every function of the given packages with an empty contract, to find engine gaps.
func runSweep(args []string) int {
	fs := flag.NewFlagSet("sweep", flag.ExitOnError)
	repo := fs.String("repo", "/repo", "")
	verif := fs.String("verif", "/verif", "")
	only := fs.String("func", "", "")
	_ = fs.Parse(args)
	eng := NewEngine(*repo)
	if err := eng.Load(fs.Args()); err != nil {
		fmt.Println("load error:", err)
		return 2
	}
	libs, _ := filepath.Glob(filepath.Join(*verif, "lib", "*.spec"))
	for _, lf := range libs {
		sf, err := ParseSpecFile(lf, "")
		if err == nil {
			_ = eng.AddSpecFile(sf)
		}
	}
	var keys []string
	for k, fn := range eng.funcsByKey {
		if len(fn.Blocks) == 0 || fn.Pkg == nil || eng.ssaPkgs[fn.Pkg.Pkg.Path()] == nil || fn.Synthetic != "" {
			continue
		}
		if *only != "" && !strings.Contains(k, *only) {
			continue
		}
		keys = append(keys, k)
	}
	sort.Strings(keys)
	okN, unsup, crash := 0, map[string]int{}, 0
	for _, k := range keys {
		func() {
			defer func() {
				if r := recover(); r != nil {
					crash++
					fmt.Printf("CRASH %s: %v\n", shortFunc(k), truncate(fmt.Sprint(r), 300))
				}
			}()
			c := &Contract{Key: k, FullKey: k, PkgPath: eng.funcsByKey[k].Pkg.Pkg.Path(), LoopInv: map[int][]*Clause{}, LoopMod: map[int][]*SExpr{}, Opts: map[string]string{"nopanic": "all"}}
			fr := eng.VerifyFunc(c)
			if fr.Err != nil {
				msg := fr.Err.Error()
				if i := strings.Index(msg, " (at "); i > 0 {
					msg = msg[:i]
				}
				unsup[msg]++
				return
			}
			okN++
		}()
	}
	fmt.Printf("sweep: %d functions ok, %d crashed\n", okN, crash)
	type kv struct {
		k string
		v int
	}
	var l []kv
	for k, v := range unsup {
		l = append(l, kv{k, v})
	}
	sort.Slice(l, func(i, j int) bool { return l[i].v > l[j].v })
	for _, x := range l {
		fmt.Printf("  %4d  %s\n", x.v, x.k)
	}
	return 0
}

func hasQuant(t *Term, seen map[int]bool) bool {
	if seen[t.id] {
		return false
	}
	seen[t.id] = true
	if t.op == "forall" || t.op == "exists" {
		return true
	}
	for _, a := range t.args {
		if hasQuant(a, seen) {
			return true
		}
	}
	return false
}

// anchorFiles reads the anchor file list of a property from properties.jsonl.
var lineCache = map[string][]string{}

// lineHash identifies a source position by the text of its line (trimmed), so that it survives edits elsewhere.
func lineHash(repo, where string) string {
	i := strings.LastIndex(where, ":")
	if i < 0 {
		return "nopos"
	}
	file, ln := where[:i], 0
	fmt.Sscanf(where[i+1:], "%d", &ln)
	lines, ok := lineCache[file]
	if !ok {
		data, err := os.ReadFile(filepath.Join(repo, file))
		if err == nil {
			lines = strings.Split(string(data), "\n")
		}
		lineCache[file] = lines
	}
	if ln < 1 || ln > len(lines) {
		return "nopos"
	}
	h := fnv.New32a()
	h.Write([]byte(strings.Join(strings.Fields(lines[ln-1]), " ")))
	return fmt.Sprintf("%08x", h.Sum32())
}

func anchorFiles(verif, prop string) map[string]bool {
	out := map[string]bool{}
	data, err := os.ReadFile(filepath.Join(verif, "properties.jsonl"))
	if err != nil {
		return out
	}
	for _, ln := range strings.Split(string(data), "\n") {
		var d struct {
			ID      string `json:"id"`
			Anchors struct {
				Files []string `json:"files"`
			} `json:"anchors"`
		}
		if json.Unmarshal([]byte(ln), &d) == nil && d.ID == prop {
			for _, f := range d.Anchors.Files {
				out[f] = true
			}
		}
	}
	return out
}
